#!/bin/sh
# Builds the verifier offline from /verif sources.
set -e
export GOFLAGS=-mod=mod GOPROXY=off GOSUMDB=off GOTOOLCHAIN=local
cd /verif/gvc && mkdir -p /verif/bin && go build -o /verif/bin/gvc .
