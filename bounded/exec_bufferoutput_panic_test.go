package exec

// Replay of the failed obligation exec.bufferOutput/panics_if/panics-only-if on the real code: for a task without
// output columns (e.g. a Scan), the task's reader is read before the deferred recover is installed, so a panic
// in user code escapes bufferOutput (and would crash the driver on the local executor).
// Injected by gvc through the build overlay; never part of the repository.

import (
	"context"
	"testing"

	"github.com/grailbio/bigslice/frame"
	"github.com/grailbio/bigslice/slicetype"
)

type gvcPanicReader struct{}

func (gvcPanicReader) Read(ctx context.Context, f frame.Frame) (int, error) {
	panic("user code panicked")
}

func TestGvcBufferOutputContainsPanicOfColumnlessTask(t *testing.T) {
	task := &Task{Type: slicetype.New(), NumPartition: 1}
	var err error
	escaped := func() (p interface{}) {
		defer func() { p = recover() }()
		_, err = bufferOutput(context.Background(), task, gvcPanicReader{})
		return nil
	}()
	if escaped != nil {
		t.Fatalf("a panic in user code escaped bufferOutput for a task without output columns: %v", escaped)
	}
	if err == nil {
		t.Fatalf("bufferOutput returned no error although user code panicked")
	}
}
