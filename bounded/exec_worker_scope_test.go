package exec

import (
	"context"
	"reflect"
	"testing"

	"github.com/grailbio/bigslice/frame"
	"github.com/grailbio/bigslice/metrics"
	"github.com/grailbio/bigslice/sliceio"
	"github.com/grailbio/bigslice/slicetype"
	"github.com/grailbio/bigslice/stats"
)

var verifScopeCounter = metrics.NewCounter()

// verifCountingReader yields one batch of three rows and counts one per Read
// call that yields rows in the metrics scope of the task running it.
type verifCountingReader struct{ done bool }

func (r *verifCountingReader) Read(ctx context.Context, out frame.Frame) (int, error) {
	if r.done {
		return 0, sliceio.EOF
	}
	r.done = true
	verifScopeCounter.Incr(metrics.ContextScope(ctx), 1)
	for i := 0; i < 3; i++ {
		out.Index(0, i).SetInt(int64(i))
	}
	return 3, nil
}

// TestVerifWorkerRerunScope replays the failed obligation
// exec.(*worker).Run/pre/field:exec.Task.Do/scope-reset-before-run (C20: "the
// counters reported for a result equal the sum of the increments performed while
// computing it, once per task"): a task that is run again on the same worker
// (its output was discarded, or it was lost and revived) must report the metrics
// of that run only, as on the local executor.
func TestVerifWorkerRerunScope(t *testing.T) {
	name := TaskName{InvIndex: 1, Op: "verif", Shard: 0, NumShard: 1}
	task := &Task{
		Type:         slicetype.New(reflect.TypeOf(0)),
		Name:         name,
		NumPartition: 1,
		Do:           func([]sliceio.Reader) sliceio.Reader { return &verifCountingReader{} },
	}
	w := &worker{
		store:     newMemoryStore(),
		tasks:     map[uint64]map[TaskName]*Task{1: {name: task}},
		taskStats: map[uint64]map[TaskName]*stats.Map{1: {name: stats.NewMap()}},
		stats:     stats.NewMap(),
	}
	ctx := context.Background()
	run := func() int64 {
		var reply taskRunReply
		if err := w.Run(ctx, taskRunRequest{Name: name, Invocation: 1}, &reply); err != nil {
			t.Fatal(err)
		}
		return verifScopeCounter.Value(&reply.Scope)
	}
	if got := run(); got != 1 {
		t.Fatalf("first run reported %d increments, want 1", got)
	}
	// The output is discarded (as by Result.Discard); a later evaluation runs the task again.
	if err := w.Discard(ctx, name, nil); err != nil {
		t.Fatal(err)
	}
	if got := run(); got != 1 {
		t.Fatalf("second run reported %d increments, want 1: the scope of the first run was not reset", got)
	}
}
