package bigslice

import (
	"testing"

	"github.com/grailbio/bigslice/typecheck"
)

// verifRejectsWithTypecheckError runs a constructor call that must be rejected and
// reports how it was rejected.
func verifRejectsWithTypecheckError(t *testing.T, what string, call func()) {
	t.Helper()
	defer func() {
		t.Helper()
		e := recover()
		if e == nil {
			t.Errorf("%s: accepted", what)
			return
		}
		if _, ok := e.(*typecheck.Error); !ok {
			t.Errorf("%s: rejected with %T (%v), not a typecheck error", what, e, e)
		}
	}()
	call()
}

// TestVerifReaderFuncResultArity replays the failed obligations
// bigslice.ReaderFunc/pre/slicetype.Type.Out/column-index and
// bigslice.ReaderFunc/panics_if/returns-normally-only-if-not (C18): the reader
// function must return exactly (int, error).
func TestVerifReaderFuncResultArity(t *testing.T) {
	verifRejectsWithTypecheckError(t, "reader returning only int", func() {
		ReaderFunc(1, func(shard int, state int, xs []int) int { return 0 })
	})
	verifRejectsWithTypecheckError(t, "reader returning nothing", func() {
		ReaderFunc(1, func(shard int, state int, xs []int) {})
	})
	verifRejectsWithTypecheckError(t, "reader returning (int, error, int)", func() {
		ReaderFunc(1, func(shard int, state int, xs []int) (int, error, int) { return 0, nil, 0 })
	})
}

// TestVerifConstUnequalColumns replays the failed obligation
// bigslice.Const/post-panic/typecheck-error (C18): columns of unequal length are
// rejected, and the rejection must be a typecheck error.
func TestVerifConstUnequalColumns(t *testing.T) {
	verifRejectsWithTypecheckError(t, "columns of unequal length", func() {
		Const(1, []int{1, 2, 3}, []string{"a"})
	})
}

// TestVerifApplyExtraNilArgument replays the failed obligation
// bigslice.(*FuncValue).applyValue/post-panic/rejected-as-typecheck-error (C18):
// applying a Func to too many arguments, one of them an untyped nil, must be
// rejected as a typecheck error (wrong number of arguments).
func TestVerifApplyExtraNilArgument(t *testing.T) {
	f := Func(func(n int) Slice { return Const(1, []int{n}) })
	verifRejectsWithTypecheckError(t, "extra untyped nil argument", func() {
		f.Apply(1, nil)
	})
}
