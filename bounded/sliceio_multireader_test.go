package sliceio

// Replay of the failed obligation sliceio.(*multiReader).Read/post/no-row-dropped on the real code: a sub-reader
// may return rows together with EOF (the Reader contract allows it; FrameReader does it); multiReader drops them.
// Injected by gvc through the build overlay; never part of the repository.

import (
	"context"
	"reflect"
	"testing"

	"github.com/grailbio/bigslice/frame"
)

func TestGvcMultiReaderKeepsRowsReturnedWithEOF(t *testing.T) {
	a := frame.Slices([]int{1, 2, 3})
	b := frame.Slices([]int{4, 5})
	r := MultiReader(NopCloser(FrameReader(a)), NopCloser(FrameReader(b)))
	var got []int
	if err := ReadAll(context.Background(), r, &got); err != nil {
		t.Fatal(err)
	}
	if want := []int{1, 2, 3, 4, 5}; !reflect.DeepEqual(got, want) {
		t.Fatalf("MultiReader(FrameReader{1,2,3}, FrameReader{4,5}) delivered %v, want %v", got, want)
	}
}
