package exec

import (
	"context"
	"reflect"
	"strings"
	"sync/atomic"
	"testing"
	"time"

	"github.com/grailbio/base/limiter"
	"github.com/grailbio/base/sync/ctxsync"
	"github.com/grailbio/bigslice/frame"
	"github.com/grailbio/bigslice/slicefunc"
	"github.com/grailbio/bigslice/slicetype"
	"github.com/grailbio/bigslice/stats"
)

// TestVerifWriteCombinerPanicIsAnError replays a C06 defect candidate: when a machine
// combiner is committed, its spilled runs are merged with the user's combine function in a
// goroutine started by CommitCombiner; a panic of that function there must become the
// combiner's error (and so the task's, carrying the message), not crash the worker process.
func TestVerifWriteCombinerPanicIsAnError(t *testing.T) {
	typ := slicetype.New(reflect.TypeOf(0), reflect.TypeOf(0))
	var armed int32
	comb, ok := slicefunc.Of(func(a, e int) int {
		if atomic.LoadInt32(&armed) == 1 {
			panic("combiner panic while committing")
		}
		return a + e
	})
	if !ok {
		t.Fatal("not a func")
	}
	key := TaskName{Op: "verifcommit"}
	// A machine combiner that spills after every batch: the same keys end up in two sorted runs, so committing
	// it merges them with the user's function.
	c, err := newCombiner(typ, "verifcommit0", comb, 1)
	if err != nil {
		t.Fatal(err)
	}
	ctx := context.Background()
	for round := 0; round < 3; round++ {
		if err := c.Combine(ctx, frame.Slices([]int{1, 2, 3}, []int{10, 10, 10})); err != nil {
			t.Fatal(err)
		}
	}
	ch := make(chan *combiner, 1)
	ch <- c
	w := &worker{
		store:          newMemoryStore(),
		tasks:          map[uint64]map[TaskName]*Task{},
		taskStats:      map[uint64]map[TaskName]*stats.Map{},
		stats:          stats.NewMap(),
		combiners:      map[TaskName][]chan *combiner{key: {ch}},
		combinerStates: map[TaskName]combinerState{key: combinerIdle},
		combinerErrors: make(map[TaskName]error),
		commitLimiter:  limiter.New(),
	}
	w.cond = ctxsync.NewCond(&w.mu)
	w.commitLimiter.Release(4)
	atomic.StoreInt32(&armed, 1)
	done := make(chan error, 1)
	go func() { done <- w.CommitCombiner(ctx, key, nil) }()
	select {
	case err := <-done:
		if err == nil || !strings.Contains(err.Error(), "combiner panic while committing") {
			t.Fatalf("CommitCombiner returned %v, want an error carrying the panic message", err)
		}
	case <-time.After(15 * time.Second):
		t.Fatal("CommitCombiner did not return")
	}
}
