package exec

// Replay of the failed obligations exec.(*fileWriter).Commit/post/write-error-reported and
// exec.(*fileStore).Open/post/positioned on the real code, with a scripted grailbio/base/file
// implementation whose trailer write / Seek fails. Injected by gvc through the build overlay;
// never part of the repository.

import (
	"context"
	"errors"
	"io"
	"os"
	"testing"
	"time"

	"github.com/grailbio/base/file"
)

type gvcFaultImpl struct{}

var gvcSeekFails, gvcWriteFailsAfter = false, -1

type gvcFile struct {
	data   []byte
	writes int
	closed int
}
type gvcInfo struct{ n int64 }

func (i gvcInfo) Size() int64        { return i.n }
func (i gvcInfo) ModTime() time.Time { return time.Time{} }

type gvcRS struct {
	f   *gvcFile
	pos int64
}

func (r *gvcRS) Read(p []byte) (int, error) {
	if r.pos >= int64(len(r.f.data)) {
		return 0, io.EOF
	}
	n := copy(p, r.f.data[r.pos:])
	r.pos += int64(n)
	return n, nil
}
func (r *gvcRS) Seek(off int64, whence int) (int64, error) {
	if gvcSeekFails {
		return 0, errors.New("injected seek failure")
	}
	switch whence {
	case io.SeekStart:
		r.pos = off
	case io.SeekEnd:
		r.pos = int64(len(r.f.data)) + off
	}
	return r.pos, nil
}

type gvcW struct{ f *gvcFile }

func (w gvcW) Write(p []byte) (int, error) {
	if gvcWriteFailsAfter >= 0 && w.f.writes >= gvcWriteFailsAfter {
		w.f.writes++
		return 0, errors.New("injected write failure")
	}
	w.f.writes++
	w.f.data = append(w.f.data, p...)
	return len(p), nil
}

func (f *gvcFile) String() string                              { return "gvcfile" }
func (f *gvcFile) Name() string                                { return "gvcfile" }
func (f *gvcFile) Stat(context.Context) (file.Info, error)     { return gvcInfo{int64(len(f.data))}, nil }
func (f *gvcFile) Reader(context.Context) io.ReadSeeker        { return &gvcRS{f: f} }
func (f *gvcFile) Writer(context.Context) io.Writer            { return gvcW{f} }
func (f *gvcFile) Discard(context.Context)                     {}
func (f *gvcFile) Close(context.Context) error                 { f.closed++; return nil }

var gvcFiles = map[string]*gvcFile{}

func (gvcFaultImpl) String() string { return "gvcfault" }
func (gvcFaultImpl) Open(ctx context.Context, path string, opts ...file.Opts) (file.File, error) {
	f, ok := gvcFiles[path]
	if !ok {
		return nil, os.ErrNotExist
	}
	return f, nil
}
func (gvcFaultImpl) Create(ctx context.Context, path string, opts ...file.Opts) (file.File, error) {
	f := &gvcFile{}
	gvcFiles[path] = f
	return f, nil
}
func (gvcFaultImpl) List(ctx context.Context, path string, recursive bool) file.Lister { return nil }
func (gvcFaultImpl) Stat(ctx context.Context, path string, opts ...file.Opts) (file.Info, error) {
	return nil, os.ErrNotExist
}
func (gvcFaultImpl) Remove(ctx context.Context, path string) error { delete(gvcFiles, path); return nil }
func (gvcFaultImpl) Presign(ctx context.Context, path, method string, expiry time.Duration) (string, error) {
	return "", errors.New("unsupported")
}

func init() {
	file.RegisterImplementation("gvcfault", func() file.Implementation { return gvcFaultImpl{} })
}

// Obligation exec.(*fileWriter).Commit/post/write-error-reported: a commit whose trailer write fails must report an error.
func TestGvcCommitReportsTrailerWriteError(t *testing.T) {
	ctx := context.Background()
	s := &fileStore{Prefix: "gvcfault://bucket/"}
	gvcSeekFails, gvcWriteFailsAfter = false, -1
	w, err := s.Create(ctx, TaskName{Op: "op", Shard: 0, NumShard: 1}, 0)
	if err != nil {
		t.Fatal(err)
	}
	if _, err := w.Write([]byte("payload")); err != nil {
		t.Fatal(err)
	}
	gvcWriteFailsAfter = 1 // the next write (the record-count trailer) fails
	err = w.Commit(ctx, 3)
	gvcWriteFailsAfter = -1
	if err == nil {
		t.Fatalf("Commit returned nil although the trailer write failed: a commit that could not persist the data must report an error")
	}
}

// Obligation exec.(*fileStore).Open/post/positioned: a reader returned without error is positioned at the requested offset.
func TestGvcOpenReportsSeekError(t *testing.T) {
	ctx := context.Background()
	s := &fileStore{Prefix: "gvcfault://bucket/"}
	gvcSeekFails, gvcWriteFailsAfter = false, -1
	name := TaskName{Op: "op2", Shard: 0, NumShard: 1}
	w, err := s.Create(ctx, name, 0)
	if err != nil {
		t.Fatal(err)
	}
	w.Write([]byte("0123456789"))
	if err := w.Commit(ctx, 1); err != nil {
		t.Fatal(err)
	}
	gvcSeekFails = true
	rc, err := s.Open(ctx, name, 0, 4)
	gvcSeekFails = false
	if err != nil {
		return // reported: fine
	}
	b, _ := io.ReadAll(rc)
	if string(b) != "456789" {
		t.Fatalf("Open(offset=4) returned no error after a failed Seek, and the reader yields %q instead of %q", b, "456789")
	}
}
