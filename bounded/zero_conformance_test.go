package zero

// Bounded conformance run of the assumed contract of zero.Unsafe / zero.Slice (trusted/frame.contracts):
// exactly elements [lo, hi) of the storage are zeroed and every other element is unchanged.
// Bound: every sub-view [lo:hi] of a 9-element slice, for element types of size 1,2,3,4,8,12,16,20,24 bytes
// (pointer-free), strings, slices and pointers. Labelled bounded; not counted as proved.
// Injected by gvc through the build overlay; never part of the repository.

import (
	"reflect"
	"testing"
	"unsafe"
)

type gvcS12 struct{ A, B, C int32 }
type gvcS20 struct {
	A int32
	B [4]int32
}
type gvcS24 struct{ A, B, C int64 }

func gvcFill(v reflect.Value) {
	for i := 0; i < v.Len(); i++ {
		e := v.Index(i)
		gvcFillElem(e, byte(i+1))
	}
}

func gvcFillElem(e reflect.Value, b byte) {
	switch e.Kind() {
	case reflect.Uint8, reflect.Uint16, reflect.Uint32, reflect.Uint64:
		e.SetUint(uint64(b))
	case reflect.Int8, reflect.Int16, reflect.Int32, reflect.Int64, reflect.Int:
		e.SetInt(int64(b))
	case reflect.String:
		e.SetString(string([]byte{'a' + b}))
	case reflect.Slice:
		e.Set(reflect.MakeSlice(e.Type(), 1, 1))
	case reflect.Ptr:
		e.Set(reflect.New(e.Type().Elem()))
	case reflect.Array:
		for j := 0; j < e.Len(); j++ {
			gvcFillElem(e.Index(j), b)
		}
	case reflect.Struct:
		for j := 0; j < e.NumField(); j++ {
			gvcFillElem(e.Field(j), b)
		}
	}
}

func TestGvcZeroConformance(t *testing.T) {
	protos := []interface{}{
		[]uint8{}, []uint16{}, [][3]uint8{}, []int32{}, []int64{}, []gvcS12{}, [][2]int64{}, []gvcS20{}, []gvcS24{},
		[][10]int16{}, []string{}, [][]byte{}, []*int{}, []struct {
			S string
			N int32
		}{},
	}
	const n = 9
	for _, p := range protos {
		typ := reflect.TypeOf(p)
		for lo := 0; lo <= n; lo++ {
			for hi := lo; hi <= n; hi++ {
				for variant := 0; variant < 2; variant++ {
					s := reflect.MakeSlice(typ, n, n)
					gvcFill(s)
					want := reflect.MakeSlice(typ, n, n)
					reflect.Copy(want, s)
					for i := lo; i < hi; i++ {
						want.Index(i).Set(reflect.Zero(typ.Elem()))
					}
					view := s.Slice(lo, hi)
					if variant == 0 {
						Slice(view.Interface())
					} else if hi > lo {
						Unsafe(typ.Elem(), unsafe.Pointer(view.Pointer()), hi-lo)
					}
					if !reflect.DeepEqual(s.Interface(), want.Interface()) {
						t.Fatalf("%v: zeroing view [%d:%d] (variant %d) gave %v, want %v", typ, lo, hi, variant, s.Interface(), want.Interface())
					}
				}
			}
		}
	}
}
