package typecheck

import "testing"

// TestVerifSlicesNilColumn replays the failed obligation typecheck.Slices/safety/nil#1 (C18): an untyped nil column
// must be rejected (ok == false, so that Const reports a typecheck error), not crash with a nil dereference.
func TestVerifSlicesNilColumn(t *testing.T) {
	defer func() {
		if e := recover(); e != nil {
			t.Fatalf("Slices(nil column) panicked instead of rejecting: %v", e)
		}
	}()
	if typ, ok := Slices([]int{1, 2}, nil); ok || typ != nil {
		t.Fatalf("Slices accepted an untyped nil column: %v", typ)
	}
}
