package frame

// Replays of failed obligations frame.Frame.Swap/post/rows-exchanged and frame.Frame.Value/post/view on the real
// code. Injected by gvc through the build overlay; never part of the repository.

import (
	"reflect"
	"testing"
)

func TestGvcSwapOnViewWithOffset(t *testing.T) {
	x := []int{0, 1, 2, 3, 4}
	f := Slices(x).Slice(1, 4) // rows 1,2,3 of the storage
	f.Swap(1, 2)               // must exchange storage rows 2 and 3
	want := []int{0, 1, 3, 2, 4}
	if !reflect.DeepEqual(x, want) {
		t.Fatalf("Swap(1,2) on a view with offset 1: storage is %v, want %v (rows outside the view were touched)", x, want)
	}
}

func TestGvcValueAfterGrowWithinCapacity(t *testing.T) {
	x := make([]int, 2, 4)
	f := Slices(x)  // len 2, cap 4
	g := f.Grow(2)  // grows within capacity: a view of rows [0,4)
	if g.Len() != 4 {
		t.Fatalf("Grow: len %d", g.Len())
	}
	if v := g.Value(0); v.Len() != g.Len() {
		t.Fatalf("Value(0) of a frame with %d rows has %d rows", g.Len(), v.Len())
	}
}
