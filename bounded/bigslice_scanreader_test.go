package bigslice_test

import (
	"context"
	"io"
	"io/ioutil"
	"sort"
	"strings"
	"testing"

	"github.com/grailbio/bigslice"
	"github.com/grailbio/bigslice/exec"
)

// TestVerifScanReaderLines replays candidate defect F3 (C01: "a program yields
// exactly the rows its operators prescribe"): ScanReader must yield exactly the
// lines of the input, each once, whatever the shard count.
func TestVerifScanReaderLines(t *testing.T) {
	const text = "l0\nl1\nl2\nl3\nl4\nl5\nl6\n"
	want := strings.Split(strings.TrimSuffix(text, "\n"), "\n")
	for _, nshard := range []int{1, 2, 3, 7, 9} {
		nshard := nshard
		f := bigslice.Func(func() bigslice.Slice {
			return bigslice.ScanReader(nshard, func() (io.ReadCloser, error) {
				return ioutil.NopCloser(strings.NewReader(text)), nil
			})
		})
		ctx := context.Background()
		sess := exec.Start(exec.Local)
		res, err := sess.Run(ctx, f)
		if err != nil {
			t.Fatal(err)
		}
		s := res.Scanner()
		var (
			line string
			got  []string
		)
		for s.Scan(ctx, &line) {
			got = append(got, line)
		}
		if err := s.Err(); err != nil {
			t.Fatal(err)
		}
		s.Close()
		sess.Shutdown()
		sort.Strings(got)
		if strings.Join(got, ",") != strings.Join(want, ",") {
			t.Errorf("nshard=%d: got rows %q, want %q", nshard, got, want)
		}
	}
}
