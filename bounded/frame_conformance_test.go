package frame

// Bounded conformance run of the assumed leaf contracts used by the frame proofs (typedslicecopy, assign,
// zero.Unsafe, reflect.Swapper/Value navigation, built-in ops): every operation on a view behaves like the same
// operation on an independent copy of the view's rows and leaves all other storage rows unchanged.
// Bound: 2-column frames (int key, string/[3]uint8 value) with 7 storage rows, every view [lo:hi], every pair of
// views for Copy. Labelled bounded; not counted as proved. Injected through the build overlay only.

import (
	"reflect"
	"testing"
)

type gvcRow struct {
	K int
	S string
	A [3]uint8
}

func gvcStorage() ([]int, []string, [][3]uint8) {
	k := []int{50, 10, 40, 20, 60, 30, 70}
	s := []string{"f", "b", "e", "c", "g", "d", "h"}
	a := make([][3]uint8, 7)
	for i := range a {
		a[i] = [3]uint8{uint8(i + 1), uint8(i + 11), uint8(i + 21)}
	}
	return k, s, a
}

func gvcRows(k []int, s []string, a [][3]uint8) []gvcRow {
	r := make([]gvcRow, len(k))
	for i := range k {
		r[i] = gvcRow{k[i], s[i], a[i]}
	}
	return r
}

func TestGvcFrameViewConformance(t *testing.T) {
	const n = 7
	for lo := 0; lo <= n; lo++ {
		for hi := lo; hi <= n; hi++ {
			// Zero
			k, s, a := gvcStorage()
			model := gvcRows(k, s, a)
			f := Slices(k, s, a).Slice(lo, hi)
			f.Zero()
			for i := lo; i < hi; i++ {
				model[i] = gvcRow{}
			}
			if got := gvcRows(k, s, a); !reflect.DeepEqual(got, model) {
				t.Fatalf("Zero on view [%d:%d]: %v want %v", lo, hi, got, model)
			}
			// Swap, Less, Hash, Index, Value
			k, s, a = gvcStorage()
			model = gvcRows(k, s, a)
			f = Slices(k, s, a).Slice(lo, hi)
			if v := f.Value(0); v.Len() != hi-lo {
				t.Fatalf("Value(0) on view [%d:%d] has %d rows", lo, hi, v.Len())
			}
			for i := 0; i < hi-lo; i++ {
				if got := f.Index(0, i).Int(); int(got) != model[lo+i].K {
					t.Fatalf("Index(0,%d) on view [%d:%d] = %d want %d", i, lo, hi, got, model[lo+i].K)
				}
				for j := 0; j < hi-lo; j++ {
					if f.Less(i, j) != (model[lo+i].K < model[lo+j].K) {
						t.Fatalf("Less(%d,%d) on view [%d:%d]", i, j, lo, hi)
					}
				}
				// hashing does not depend on where the row is stored
				single := Slices([]int{model[lo+i].K}, []string{model[lo+i].S}, [][3]uint8{model[lo+i].A})
				if f.Hash(i) != single.Hash(0) {
					t.Fatalf("Hash(%d) on view [%d:%d] differs from the hash of an independent copy of the row", i, lo, hi)
				}
			}
			if hi-lo >= 2 {
				f.Swap(0, hi-lo-1)
				model[lo], model[hi-1] = model[hi-1], model[lo]
				if got := gvcRows(k, s, a); !reflect.DeepEqual(got, model) {
					t.Fatalf("Swap on view [%d:%d]: %v want %v", lo, hi, got, model)
				}
			}
			// Copy between every pair of views of two storages (and of the same storage: memmove semantics)
			for lo2 := 0; lo2 <= n; lo2++ {
				for hi2 := lo2; hi2 <= n; hi2++ {
					for same := 0; same < 2; same++ {
						k, s, a = gvcStorage()
						k2, s2, a2 := gvcStorage()
						for i := range k2 {
							k2[i] += 1000
							s2[i] += "x"
						}
						if same == 1 {
							k2, s2, a2 = k, s, a
						}
						src := gvcRows(k2, s2, a2)
						model = gvcRows(k, s, a)
						dst := Slices(k, s, a).Slice(lo, hi)
						m := Copy(dst, Slices(k2, s2, a2).Slice(lo2, hi2))
						want := hi - lo
						if hi2-lo2 < want {
							want = hi2 - lo2
						}
						if m != want {
							t.Fatalf("Copy([%d:%d] <- [%d:%d]) = %d want %d", lo, hi, lo2, hi2, m, want)
						}
						for i := 0; i < want; i++ {
							model[lo+i] = src[lo2+i]
						}
						if got := gvcRows(k, s, a); !reflect.DeepEqual(got, model) {
							t.Fatalf("Copy([%d:%d] <- [%d:%d]) same=%d: %v want %v", lo, hi, lo2, hi2, same, got, model)
						}
					}
				}
			}
			// Grow / AppendFrame keep the view's rows and do not touch the old storage
			k, s, a = gvcStorage()
			before := gvcRows(k, s, a)
			f = Slices(k, s, a).Slice(lo, hi)
			g := f.Grow(3)
			if g.Len() != hi-lo+3 {
				t.Fatalf("Grow len")
			}
			for i := 0; i < hi-lo; i++ {
				if int(g.Index(0, i).Int()) != before[lo+i].K || g.Index(1, i).String() != before[lo+i].S {
					t.Fatalf("Grow on view [%d:%d] lost row %d", lo, hi, i)
				}
			}
			h := AppendFrame(f, Slices([]int{7, 8}, []string{"p", "q"}, [][3]uint8{{1}, {2}}))
			if h.Len() != hi-lo+2 || int(h.Index(0, hi-lo+1).Int()) != 8 || h.Index(1, hi-lo).String() != "p" {
				t.Fatalf("AppendFrame on view [%d:%d]", lo, hi)
			}
			for i := 0; i < hi-lo; i++ {
				if int(h.Index(0, i).Int()) != before[lo+i].K {
					t.Fatalf("AppendFrame on view [%d:%d] lost row %d", lo, hi, i)
				}
			}
			// rows outside the view are untouched by Grow/AppendFrame
			after := gvcRows(k, s, a)
			for i := 0; i < n; i++ {
				if (i < lo || i >= hi+3) && !reflect.DeepEqual(after[i], before[i]) {
					t.Fatalf("Grow/AppendFrame on view [%d:%d] changed storage row %d", lo, hi, i)
				}
			}
		}
	}
}
