package sortio

// Replay of the failed obligation sortio.SortReader/safety/div (bytesPerRow can be zero): rows that encode to less
// than one byte each on average make `spillTarget / (size / n)` divide by zero.
// Injected by gvc through the build overlay; never part of the repository.

import (
	"context"
	"reflect"
	"testing"

	"github.com/grailbio/bigslice/frame"
	"github.com/grailbio/bigslice/sliceio"
	"github.com/grailbio/bigslice/slicetype"
)

type gvcTiny struct{}

func init() {
	frame.RegisterOps(func(slice []gvcTiny) frame.Ops {
		return frame.Ops{
			Less:         func(i, j int) bool { return false },
			HashWithSeed: func(i int, seed uint32) uint32 { return seed },
			// a (legal) codec that needs no bytes at all for its rows
			Encode: func(e frame.Encoder, i, j int) error { return nil },
			Decode: func(d frame.Decoder, i, j int) error { return nil },
		}
	})
}

func TestGvcSortReaderTinyRows(t *testing.T) {
	n := *numCanaryRows * 3
	col := make([]gvcTiny, n)
	f := frame.Slices(col)
	typ := slicetype.New(reflect.TypeOf(gvcTiny{}))
	var escaped interface{}
	func() {
		defer func() { escaped = recover() }()
		r, err := SortReader(context.Background(), 1<<20, typ, sliceio.FrameReader(f))
		if err != nil {
			t.Logf("SortReader returned error: %v", err)
			return
		}
		out := frame.Make(typ, 128, 128)
		total := 0
		for {
			m, err := r.Read(context.Background(), out)
			total += m
			if err != nil {
				break
			}
		}
		if total != n {
			t.Fatalf("sorted %d rows, want %d", total, n)
		}
	}()
	if escaped != nil {
		t.Fatalf("SortReader panicked on rows of an empty struct type: %v", escaped)
	}
}
