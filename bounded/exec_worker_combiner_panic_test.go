package exec

import (
	"context"
	"reflect"
	"strings"
	"testing"
	"time"

	"github.com/grailbio/base/limiter"
	"github.com/grailbio/base/sync/ctxsync"
	"github.com/grailbio/bigslice/frame"
	"github.com/grailbio/bigslice/slicefunc"
	"github.com/grailbio/bigslice/sliceio"
	"github.com/grailbio/bigslice/slicetype"
	"github.com/grailbio/bigslice/stats"
)

// TestVerifWorkerCombinerPanicDoesNotHang replays the last item of candidate defect
// F10 (C06: a panicking reduce combiner "in the per-partition combine buffer" must
// surface as an error and must not hang): the user's combiner panics while the task
// holds the token of the shared per-partition combine buffer. (*worker).Run must
// return an error carrying the panic message; it must not block.
func TestVerifWorkerCombinerPanicDoesNotHang(t *testing.T) {
	typ := slicetype.New(reflect.TypeOf(0), reflect.TypeOf(0))
	calls := 0
	comb, ok := slicefunc.Of(func(a, e int) int {
		calls++
		if a >= 100 {
			panic("combiner panic while holding the combine buffer")
		}
		return a + e
	})
	if !ok {
		t.Fatal("not a func")
	}
	// 6 distinct keys, each fed three times with value 100: the task-local table (8 slots) is flushed into the
	// machine combine buffer once it is more than half full; the second flush combines equal keys there.
	var ks, vs []int
	for round := 0; round < 3; round++ {
		for k := 0; k < 6; k++ {
			ks, vs = append(ks, k), append(vs, 100)
		}
	}
	name := TaskName{InvIndex: 1, Op: "verifcomb", Shard: 0, NumShard: 1}
	task := &Task{
		Type:         typ,
		Name:         name,
		NumPartition: 1,
		Partitioner:  func(_ context.Context, _ frame.Frame, _ int, shards []int) { for i := range shards { shards[i] = 0 } },
		Combiner:     comb,
		Do:           func([]sliceio.Reader) sliceio.Reader { return sliceio.FrameReader(frame.Slices(ks, vs)) },
	}
	w := &worker{
		store:          newMemoryStore(),
		tasks:          map[uint64]map[TaskName]*Task{1: {name: task}},
		taskStats:      map[uint64]map[TaskName]*stats.Map{1: {name: stats.NewMap()}},
		stats:          stats.NewMap(),
		combiners:      make(map[TaskName][]chan *combiner),
		combinerStates: make(map[TaskName]combinerState),
		combinerErrors: make(map[TaskName]error),
		commitLimiter:  limiter.New(),
	}
	w.cond = ctxsync.NewCond(&w.mu)
	w.commitLimiter.Release(4)
	done := make(chan error, 1)
	go func() {
		var reply taskRunReply
		done <- w.Run(context.Background(), taskRunRequest{Name: name, Invocation: 1}, &reply)
	}()
	select {
	case err := <-done:
		if calls == 0 {
			t.Skip("the scenario did not reach the combiner")
		}
		if err == nil || !strings.Contains(err.Error(), "combiner panic while holding the combine buffer") {
			t.Fatalf("Run returned %v, want an error carrying the panic message", err)
		}
	case <-time.After(15 * time.Second):
		t.Fatal("(*worker).Run did not return within 15s after the user's combiner panicked: the worker is wedged")
	}
}
