package exec

// Replay of the failed obligation exec.(*multiReader).Read/post/no-row-dropped on the real code (same defect shape
// as sliceio.multiReader): rows returned together with EOF by an input were dropped.
// Injected by gvc through the build overlay; never part of the repository.

import (
	"context"
	"reflect"
	"testing"

	"github.com/grailbio/bigslice/frame"
	"github.com/grailbio/bigslice/sliceio"
)

func TestGvcExecMultiReaderKeepsRowsReturnedWithEOF(t *testing.T) {
	a := frame.Slices([]int{1, 2, 3})
	b := frame.Slices([]int{4, 5})
	r := &multiReader{q: []sliceio.Reader{sliceio.FrameReader(a), sliceio.FrameReader(b)}}
	var got []int
	if err := sliceio.ReadAll(context.Background(), r, &got); err != nil {
		t.Fatal(err)
	}
	if want := []int{1, 2, 3, 4, 5}; !reflect.DeepEqual(got, want) {
		t.Fatalf("exec.multiReader over FrameReader{1,2,3}, FrameReader{4,5} delivered %v, want %v", got, want)
	}
}
