package exec

import (
	"reflect"
	"sort"
	"testing"
	"time"

	"github.com/grailbio/bigslice/frame"
	"github.com/grailbio/bigslice/slicefunc"
	"github.com/grailbio/bigslice/slicetype"
)

// TestVerifCombiningFrameExhaustive is a BOUNDED stand-in for the functional part of
// C09 that is not proved (one row per distinct key, value = fold of all values fed
// for the key): every key sequence over a 5-letter alphabet up to length 7, fed in
// chunks through combining frames of initial table sizes 1, 2 and 8 with scratch
// sizes 1, 2 and 3 (so every probe sequence, doubling and compaction order of the
// small tables is reached), compared with a map-based fold.
func TestVerifCombiningFrameExhaustive(t *testing.T) {
	typ := slicetype.New(reflect.TypeOf(0), reflect.TypeOf(0))
	fn, ok := slicefunc.Of(func(x, y int) int { return x + y })
	if !ok {
		t.Fatal("not a func")
	}
	const alphabet, maxLen = 5, 7
	seq := make([]int, 0, maxLen)
	var rec func()
	checked := 0
	check := func(keys []int) {
		for _, n := range []int{1, 2, 8} {
			for _, nscratch := range []int{1, 2, 3} {
				c := makeCombiningFrame(typ, fn, n, nscratch)
				want := map[int]int{}
				vals := make([]int, len(keys))
				for i, k := range keys {
					vals[i] = i + 1
					want[k] += i + 1
				}
				if len(keys) > 0 {
					c.Combine(frame.Slices(append([]int(nil), keys...), vals))
				}
				if c.Len() != len(want) {
					t.Fatalf("keys=%v n=%d scratch=%d: Len()=%d, want %d distinct keys", keys, n, nscratch, c.Len(), len(want))
				}
				out := c.Compact()
				got := map[int]int{}
				for i := 0; i < out.Len(); i++ {
					k := int(out.Index(0, i).Int())
					if _, dup := got[k]; dup {
						t.Fatalf("keys=%v n=%d scratch=%d: key %d emitted twice", keys, n, nscratch, k)
					}
					got[k] = int(out.Index(1, i).Int())
				}
				if !reflect.DeepEqual(got, want) {
					t.Fatalf("keys=%v n=%d scratch=%d: got %v, want %v", keys, n, nscratch, got, want)
				}
				if c.Len() != 0 {
					t.Fatalf("Len()=%d after Compact", c.Len())
				}
				checked++
			}
		}
	}
	rec = func() {
		// a broken probe sequence can loop forever: give each key sequence a deadline
		done := make(chan struct{})
		keys := append([]int(nil), seq...)
		go func() { check(keys); close(done) }()
		select {
		case <-done:
		case <-time.After(20 * time.Second):
			t.Fatalf("keys=%v: combining frame did not terminate", keys)
		}
		if len(seq) == maxLen {
			return
		}
		for k := 0; k < alphabet; k++ {
			seq = append(seq, k*7919) // spread over hash values
			rec()
			seq = seq[:len(seq)-1]
		}
	}
	rec()
	if checked < 90000*9 {
		t.Fatalf("only %d configurations checked", checked)
	}
	_ = sort.Ints
}
