package exec

// Replay of the known finding exec.(*state).Enqueue/post/zero-means-done on the real code: a task that is
// already in state TaskErr (as left behind by an earlier, failed evaluation whose tasks are reused) is treated
// like a completed one, so Eval reports success although a root has not completed successfully.
// Injected by gvc through the build overlay; never part of the repository.

import (
	"context"
	"errors"
	"sync"
	"testing"
)

type gvcNoRunExecutor struct {
	testExecutor
	mu  sync.Mutex
	ran []*Task
}

func (e *gvcNoRunExecutor) Run(t *Task) {
	e.mu.Lock()
	e.ran = append(e.ran, t)
	e.mu.Unlock()
	t.Set(TaskOk)
}

func TestGvcEvalReportsSuccessOnErroredRoot(t *testing.T) {
	root := &Task{Name: TaskName{Op: "root", Shard: 0, NumShard: 1}}
	root.state = TaskErr
	root.err = errors.New("failed in an earlier evaluation")
	x := &gvcNoRunExecutor{}
	err := Eval(context.Background(), x, []*Task{root}, nil)
	if err == nil && root.State() != TaskOk {
		t.Fatalf("Eval returned nil although the root is in state %v", root.State())
	}
}

func TestGvcEvalStartsDependentOfErroredDependency(t *testing.T) {
	dep := &Task{Name: TaskName{Op: "dep", Shard: 0, NumShard: 1}}
	dep.state = TaskErr
	dep.err = errors.New("failed in an earlier evaluation")
	root := &Task{Name: TaskName{Op: "root", Shard: 0, NumShard: 1}, Deps: []TaskDep{{Head: dep}}}
	x := &gvcNoRunExecutor{}
	_ = Eval(context.Background(), x, []*Task{root}, nil)
	for _, r := range x.ran {
		if r == root {
			t.Fatalf("the evaluator handed %v to the executor although its dependency %v is in state %v", root.Name, dep.Name, dep.State())
		}
	}
}
