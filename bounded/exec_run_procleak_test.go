package exec

// Replay of the failed obligation exec.(*bigmachineExecutor).Run/post/returned-once-after-grant on the real code:
// the path found by the verifier is "machine granted, combiner commit of a dependency fails (g.Wait() != nil)".
// The test plays the cluster manager's side of the Offer protocol by hand, grants a real (in-process, test system)
// bigmachine machine that has no Worker service, so that the CommitCombiner RPC fails, and then checks that the
// procs are returned through Done. Injected by gvc through the build overlay; never part of the repository.

import (
	"context"
	"encoding/gob"
	"testing"
	"time"

	"github.com/grailbio/bigmachine"
	"github.com/grailbio/bigmachine/testsystem"
	"github.com/grailbio/bigslice"
	"github.com/grailbio/bigslice/stats"
)

type gvcDummyService struct{}

func (*gvcDummyService) Ping(ctx context.Context, _ struct{}, _ *struct{}) error { return nil }

func init() { gob.Register(&gvcDummyService{}) }

func TestGvcRunReturnsProcsAfterFailedCombinerCommit(t *testing.T) {
	sys := testsystem.New()
	sess := Start(Bigmachine(sys), Parallelism(1))
	defer sess.Shutdown()
	b := sess.executor.(*bigmachineExecutor)

	ctx, cancel := context.WithTimeout(context.Background(), 60*time.Second)
	defer cancel()
	machines, err := b.b.Start(ctx, 1, bigmachine.Services{"GvcDummy": &gvcDummyService{}})
	if err != nil || len(machines) != 1 {
		t.Fatalf("start machine: %v", err)
	}
	<-machines[0].Wait(bigmachine.Running)

	donec := make(chan machineDone, 4)
	m := &sliceMachine{Machine: machines[0], Stats: stats.NewMap(), maxTaskProcs: 1, donec: donec, tasks: make(map[*Task]struct{})}

	// our own manager: we serve the offer by hand
	mgr := &machineManager{machprocs: 1, schedc: make(chan *scheduleRequest), unschedc: make(chan *scheduleRequest)}
	b.mu.Lock()
	b.managers = []*machineManager{mgr}
	b.mu.Unlock()
	go func() {
		req := <-mgr.schedc
		req.machc <- m
	}()

	inv := execInvocation{Invocation: bigslice.Invocation{Index: 1}}
	b.mu.Lock()
	b.invocations[1] = inv
	b.mu.Unlock()
	// the invocation counts as compiled on m
	if err := m.Compiles.Do(uint64(1), func() error { return nil }); err != nil {
		t.Fatal(err)
	}

	dep := &Task{Name: TaskName{InvIndex: 1, Op: "dep", Shard: 0, NumShard: 1}, Invocation: inv, Pragma: bigslice.Pragmas{}}
	dep.state = TaskOk
	b.setLocation(dep, m)
	task := &Task{Name: TaskName{InvIndex: 1, Op: "consumer", Shard: 0, NumShard: 1}, Invocation: inv, Pragma: bigslice.Pragmas{},
		Deps: []TaskDep{{Head: dep, Partition: 0, CombineKey: "combinekey"}}}

	finished := make(chan struct{})
	go func() { b.Run(task); close(finished) }()
	select {
	case <-finished:
	case <-time.After(90 * time.Second):
		t.Skip("Run did not finish (RPC retries); cannot observe the exit path here")
	}
	if task.State() != TaskErr {
		t.Skipf("task ended in state %v, not on the failed-combiner-commit path (%v)", task.State(), task.Err())
	}
	select {
	case d := <-donec:
		if d.procs != 1 {
			t.Fatalf("Done called with procs=%d, want 1", d.procs)
		}
	default:
		t.Fatalf("Run returned after a failed combiner commit (task error: %v) without returning the granted procs: m.Done was never called", task.Err())
	}
}
