package exec

import (
	"bytes"
	"context"
	"encoding/gob"
	"testing"

	"github.com/grailbio/bigslice"
)

// TestVerifShippedInvocationIsFrozen replays a C08/C13 defect: the driver freezes the
// compile environment of an invocation after compiling it (Session.run), so that every
// later compilation of the same invocation — on workers — takes the driver's
// cached/not-cached decisions and never consults the cache again. What the bigmachine
// executor ships to workers is the invocation held by the tasks (task.Invocation):
// that copy must be frozen too, or a worker whose view of the cache differs compiles a
// different task graph under the same task names.
func TestVerifShippedInvocationIsFrozen(t *testing.T) {
	const Nshard = 4
	var cachedShards []int
	f := bigslice.Func(func() bigslice.Slice {
		slice := bigslice.Const(Nshard, []int{0, 1, 2, 3, 4, 5, 6, 7})
		slice = bigslice.Reshuffle(slice)
		return fakeCache(slice, cachedShards)
	})
	cachedShards = []int{1}
	sess := Start(Local)
	defer sess.Shutdown()
	res, err := sess.Run(context.Background(), f)
	if err != nil {
		t.Fatal(err)
	}
	tasks := res.tasks
	// What the bigmachine executor ships to a worker (addInvocation(task.Invocation), gob).
	shipped := tasks[0].Invocation
	var b bytes.Buffer
	if err := gob.NewEncoder(&b).Encode(shipped); err != nil {
		t.Fatal(err)
	}
	var onWorker execInvocation
	if err := gob.NewDecoder(&b).Decode(&onWorker); err != nil {
		t.Fatal(err)
	}
	if onWorker.Env.IsWritable() {
		t.Error("the invocation that reaches a worker carries a writable compile environment")
	}
	// Meanwhile the cache changed (more shard files appeared). The worker must still compile the driver's graph.
	cachedShards = []int{1, 2, 3}
	wtasks, err := compile(onWorker, onWorker.Invoke(), false)
	if err != nil {
		t.Fatal(err)
	}
	for i := range tasks {
		if got, want := len(wtasks[i].Deps), len(tasks[i].Deps); got != want {
			t.Errorf("shard %d: the worker compiled %d dependencies, the driver %d: the task graphs differ", i, got, want)
		}
	}
}
