package bigslice_test

import (
	"context"
	"fmt"
	"reflect"
	"sort"
	"testing"

	"github.com/grailbio/bigslice"
	"github.com/grailbio/bigslice/frame"
	"github.com/grailbio/bigslice/sliceio"
)

// TestVerifCogroupBounded is a BOUNDED stand-in for the part of C01/C17 about the
// cogroup merge that is not proved (delivered groups are the groups of the inputs, and
// rows handed out by one Read are not changed by later Reads): one and two
// dependencies, 1..300 rows per dependency (around the 128-row merge buffer), keys
// with 1-3 rows each, destination frames of 1, 7, 128 and 512 rows.
func TestVerifCogroupBounded(t *testing.T) {
	ctx := context.Background()
	for _, na := range []int{1, 127, 128, 129, 257, 300} {
		for _, nb := range []int{0, 1, 128, 300} {
			for _, per := range []int{1, 3} {
				for _, destSize := range []int{1, 7, 128, 512} {
					mk := func(n int, tag string) ([]int, []string) {
						ks, vs := make([]int, n), make([]string, n)
						for i := range ks {
							ks[i], vs[i] = i/per, fmt.Sprint(tag, i)
						}
						return ks, vs
					}
					ka, va := mk(na, "a")
					kb, vb := mk(nb, "b")
					wantA, wantB := map[int][]string{}, map[int][]string{}
					for i := range ka {
						wantA[ka[i]] = append(wantA[ka[i]], va[i])
					}
					for i := range kb {
						wantB[kb[i]] = append(wantB[kb[i]], vb[i])
					}
					var slice bigslice.Slice
					var deps []sliceio.Reader
					if nb == 0 {
						slice = bigslice.Cogroup(bigslice.Const(1, ka, va))
						deps = []sliceio.Reader{sliceio.FrameReader(frame.Slices(ka, va))}
					} else {
						slice = bigslice.Cogroup(bigslice.Const(1, ka, va), bigslice.Const(1, kb, vb))
						deps = []sliceio.Reader{sliceio.FrameReader(frame.Slices(ka, va)), sliceio.FrameReader(frame.Slices(kb, vb))}
					}
					r := slice.Reader(0, deps)
					type group struct {
						key  int
						a, b []string
					}
					var (
						delivered []frame.Frame
						snaps     [][]group
					)
					render := func(out frame.Frame) []group {
						gs := make([]group, out.Len())
						for i := range gs {
							gs[i].key = int(out.Index(0, i).Int())
							gs[i].a = append([]string(nil), out.Index(1, i).Interface().([]string)...)
							if nb > 0 {
								gs[i].b = append([]string(nil), out.Index(2, i).Interface().([]string)...)
							}
						}
						return gs
					}
					for calls := 0; ; calls++ {
						if calls > 2000 {
							t.Fatal("reader does not terminate")
						}
						out := frame.Make(slice, destSize, destSize)
						n, err := r.Read(ctx, out)
						out = out.Slice(0, n)
						delivered = append(delivered, out)
						snaps = append(snaps, render(out))
						if err == sliceio.EOF {
							break
						}
						if err != nil {
							t.Fatal(err)
						}
					}
					seen := map[int]bool{}
					last := -1
					for ci, out := range delivered {
						now := render(out)
						if !reflect.DeepEqual(now, snaps[ci]) {
							t.Fatalf("na=%d nb=%d per=%d dest=%d: rows delivered by call %d were changed by a later call", na, nb, per, destSize, ci)
						}
						for _, g := range now {
							if g.key <= last || seen[g.key] {
								t.Fatalf("na=%d nb=%d per=%d dest=%d: key %d out of order or repeated", na, nb, per, destSize, g.key)
							}
							last, seen[g.key] = g.key, true
							sort.Strings(g.a)
							sort.Strings(g.b)
							wa, wb := append([]string(nil), wantA[g.key]...), append([]string(nil), wantB[g.key]...)
							sort.Strings(wa)
							sort.Strings(wb)
							if fmt.Sprint(g.a) != fmt.Sprint(wa) || (nb > 0 && fmt.Sprint(g.b) != fmt.Sprint(wb)) {
								t.Fatalf("na=%d nb=%d per=%d dest=%d: key %d has groups %v %v, want %v %v", na, nb, per, destSize, g.key, g.a, g.b, wa, wb)
							}
						}
					}
					nkeys := len(wantA)
					for k := range wantB {
						if _, ok := wantA[k]; !ok {
							nkeys++
						}
					}
					if len(seen) != nkeys {
						t.Fatalf("na=%d nb=%d per=%d dest=%d: %d keys delivered, want %d", na, nb, per, destSize, len(seen), nkeys)
					}
				}
			}
		}
	}
}
