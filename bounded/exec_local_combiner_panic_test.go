package exec

import (
	"context"
	"strings"
	"testing"
	"time"

	"github.com/grailbio/bigslice"
)

// TestVerifLocalConsumerSideCombinerPanic replays candidate defect F10 (C06: a panic
// of a reduce combiner "in the merge on the consumer side" must surface as an error from
// Run and must not crash the driver process): on the local executor every combine of a
// Reduce happens in the consumer task's depReaders (before bufferOutput installs its
// recover), so a combiner that panics at some row must still only fail the run.
func TestVerifLocalConsumerSideCombinerPanic(t *testing.T) {
	const N = 64
	f := bigslice.Func(func() bigslice.Slice {
		ks, vs := make([]int, N), make([]int, N)
		for i := range ks {
			ks[i], vs[i] = 0, 1 // one key; 4 producer shards of 16 rows each
		}
		slice := bigslice.Const(4, ks, vs)
		return bigslice.Reduce(slice, func(a, e int) int {
			if a == 40 {
				panic("combiner panic on the consumer side")
			}
			return a + e
		})
	})
	ctx, cancel := context.WithTimeout(context.Background(), 30*time.Second)
	defer cancel()
	sess := Start(Local, Parallelism(2))
	defer sess.Shutdown()
	_, err := sess.Run(ctx, f)
	if err == nil {
		t.Fatal("Run returned nil although the combiner panicked")
	}
	if !strings.Contains(err.Error(), "combiner panic on the consumer side") {
		t.Fatalf("Run's error does not carry the panic message: %v", err)
	}
}
