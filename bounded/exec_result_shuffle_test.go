package exec

import (
	"context"
	"sort"
	"testing"
	"time"

	"github.com/grailbio/bigslice"
)

// TestVerifResultAsShuffleDep replays the failed obligation
// exec.(*compiler).compile/post/partition-count (C08) and the statement of C12
// ("passed as an argument to later Funcs that apply any operator to it,
// including operators that redistribute it"): a Result is consumed directly by
// an operator that shuffles it. The re-shuffling tasks compile() inserts must
// partition their output for the consumer's shard count.
func TestVerifResultAsShuffleDep(t *testing.T) {
	const N = 100
	source := bigslice.Func(func() bigslice.Slice {
		ks := make([]int, N)
		vs := make([]int, N)
		for i := range ks {
			ks[i], vs[i] = i%10, 1
		}
		return bigslice.Const(4, ks, vs)
	})
	sum := bigslice.Func(func(slice bigslice.Slice) bigslice.Slice {
		return bigslice.Reduce(slice, func(a, e int) int { return a + e })
	})
	ctx, cancel := context.WithTimeout(context.Background(), 20*time.Second)
	defer cancel()
	sess := Start(Local, Parallelism(4))
	defer sess.Shutdown()
	res, err := sess.Run(ctx, source)
	if err != nil {
		t.Fatal(err)
	}
	summed, err := sess.Run(ctx, sum, res)
	if err != nil {
		t.Fatalf("reduce over a result: %v", err)
	}
	s := summed.Scanner()
	defer s.Close()
	var (
		k, v int
		got  [][2]int
	)
	for s.Scan(ctx, &k, &v) {
		got = append(got, [2]int{k, v})
	}
	if err := s.Err(); err != nil {
		t.Fatalf("scan: %v", err)
	}
	sort.Slice(got, func(i, j int) bool { return got[i][0] < got[j][0] })
	if len(got) != 10 {
		t.Fatalf("got %d keys, want 10: %v", len(got), got)
	}
	for i, r := range got {
		if r[0] != i || r[1] != N/10 {
			t.Fatalf("key %d: got %v, want [%d %d]", i, r, i, N/10)
		}
	}
	// The same through an operator without a combiner: every row survives and
	// equal keys are co-located.
	reshuffle := bigslice.Func(func(slice bigslice.Slice) bigslice.Slice {
		return bigslice.Reshuffle(slice)
	})
	moved, err := sess.Run(ctx, reshuffle, res)
	if err != nil {
		t.Fatalf("reshuffle over a result: %v", err)
	}
	s2 := moved.Scanner()
	defer s2.Close()
	count := make(map[int]int)
	for s2.Scan(ctx, &k, &v) {
		count[k] += v
	}
	if err := s2.Err(); err != nil {
		t.Fatalf("scan: %v", err)
	}
	for i := 0; i < 10; i++ {
		if count[i] != N/10 {
			t.Fatalf("reshuffle: key %d has %d rows, want %d", i, count[i], N/10)
		}
	}
}
