package sortio

import (
	"context"
	"reflect"
	"testing"

	"github.com/grailbio/bigslice/frame"
	"github.com/grailbio/bigslice/slicefunc"
	"github.com/grailbio/bigslice/sliceio"
	"github.com/grailbio/bigslice/slicetype"
)

// TestVerifReduceBounded is a BOUNDED stand-in for the reduce-merge part of C09/C10
// (sortio.reader is not under contract): sorted runs of lengths around the reader's
// internal chunk size (1..3 runs, lengths 1, 127, 128, 129, 255, 256, 257, 300, with
// keys present in one run only at every position of a chunk, and keys shared between
// runs) are merged and reduced with +; the output must hold every distinct key once,
// in ascending order, with the sum of its values.
func TestVerifReduceBounded(t *testing.T) {
	typ := slicetype.New(reflect.TypeOf(0), reflect.TypeOf(0))
	fn, ok := slicefunc.Of(func(x, y int) int { return x + y })
	if !ok {
		t.Fatal("not a func")
	}
	ctx := context.Background()
	lengths := []int{1, 127, 128, 129, 255, 256, 257, 300}
	for _, la := range lengths {
		for _, lb := range append([]int{0}, lengths...) {
			for _, stride := range []int{1, 2, 3} {
				// run A: keys 0, stride, 2*stride, ...; run B: keys 1, 1+3, 1+6, ... (some shared with A)
				want := map[int]int{}
				mk := func(n, start, step, val int) sliceio.Reader {
					ks, vs := make([]int, n), make([]int, n)
					for i := range ks {
						ks[i], vs[i] = start+i*step, val+i
						want[ks[i]] += val + i
					}
					return sliceio.FrameReader(frame.Slices(ks, vs))
				}
				readers := []sliceio.Reader{mk(la, 0, stride, 1000)}
				if lb > 0 {
					readers = append(readers, mk(lb, 1, 3, 5))
				}
				r := Reduce(typ, "verif", readers, fn)
				out := frame.Make(typ, 100, 100)
				last, seen := -1, 0
				for {
					n, err := r.Read(ctx, out)
					for i := 0; i < n; i++ {
						k, v := int(out.Index(0, i).Int()), int(out.Index(1, i).Int())
						if k <= last {
							t.Fatalf("la=%d lb=%d stride=%d: key %d after %d: not strictly ascending", la, lb, stride, k, last)
						}
						last = k
						if v != want[k] {
							t.Fatalf("la=%d lb=%d stride=%d: key %d has value %d, want %d", la, lb, stride, k, v, want[k])
						}
						seen++
					}
					if err == sliceio.EOF {
						break
					}
					if err != nil {
						t.Fatal(err)
					}
				}
				if seen != len(want) {
					t.Fatalf("la=%d lb=%d stride=%d: %d keys emitted, want %d", la, lb, stride, seen, len(want))
				}
			}
		}
	}
}
