#!/bin/bash
# usage: verify_seed.sh <prop> <A|B> <pkgdir-for-demo> <run-regex>
# Confirms a seeded change in its scratch worktree /tmp/wt/<prop>: demo passes clean, patch applies+builds,
# baseline 30 tests pass with it, demo fails with it. Stores the result under /verif/seeded/<prop>-<A|B>/.
export GOFLAGS=-mod=mod GOPROXY=off GOSUMDB=off GOTOOLCHAIN=local GODEBUG=goindex=0
P=$1; S=$2; PKG=$3; RUN=$4
WT=/tmp/wt/$P; SO=$WT/seed_out/$S; ID=$P-$S
OUT=/verif/seeded/$ID; mkdir -p $OUT
cd $WT || exit 2
git checkout -q -- . ; 
/tmp/ovl/mkoverlay.sh /tmp/ovout/v$ID $WT >/dev/null
DEMO=$(ls $SO/*_test.go | head -1); DN=$(basename $DEMO)
cp $DEMO $WT/$PKG/$DN
log=$OUT/verify.log; : > $log
echo "## demo on unchanged tree" >> $log
( cd $WT && timeout 600 go test -overlay /tmp/ovout/v$ID/ov.json -vet=off -count=1 -timeout 300s -run "$RUN" ./$PKG ) >> $log 2>&1; clean=$?
git apply $SO/patch.diff || { echo "patch does not apply" >> $log; exit 1; }
echo "## build with change" >> $log
( go build -overlay /tmp/ovout/v$ID/ov.json -o /dev/null . ./exec ./frame ./sliceio ./sortio ./metrics ./internal/... ./slicetype ./slicefunc ./typecheck ./stats ) >> $log 2>&1; build=$?
echo "## baseline 30 tests with change" >> $log
( go test -mod=mod -vet=off -count=1 ./cmd/slicetrace ./internal/walker ./internal/zero ./slicefunc ./slicetype ./stats ./typecheck ) >> $log 2>&1; base=$?
echo "## demo with change" >> $log
( timeout 600 go test -overlay /tmp/ovout/v$ID/ov.json -vet=off -count=1 -timeout 300s -run "$RUN" ./$PKG ) >> $log 2>&1; mut=$?
rm -f $WT/$PKG/$DN; git checkout -q -- .
cp $SO/patch.diff $OUT/patch.diff; cp $DEMO $OUT/$DN; cp $SO/notes.md $OUT/notes.md
echo "$ID clean_exit=$clean build_exit=$build baseline_exit=$base demo_with_change_exit=$mut" | tee $OUT/verify.summary
rm -rf /tmp/ovout/v$ID
