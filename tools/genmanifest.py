#!/usr/bin/env python3
# Regenerates MANIFEST.json from props/*.json and tools/manifest_meta.json (claimed properties + not_applicable reasons).
import json, glob, os, subprocess
V='/verif'
meta=json.load(open(V+'/tools/manifest_meta.json'))
props=[json.loads(l) for l in open(V+'/properties.jsonl')]
checks=[]; served=[]
for p in props:
    pid=p['id']
    if pid not in meta['claimed']: continue
    c=meta['claimed'][pid]
    served.append(pid)
    checks.append({
      "property_id":pid,
      "quick_cmd":"/verif/bin/gvc check %s --tier quick"%pid,
      "thorough_cmd":"/verif/bin/gvc check %s --tier thorough"%pid,
      "evidence_file":"/verif/evidence/%s.json"%pid,
      "replay_cmd_template":"/verif/bin/gvc check %s --replay {path}"%pid,
      "engine":"gvc",
      "level_claimed":{"category":c['level'],"text":c['text'],"design_ref":c.get('design_ref','DESIGN.md §4 '+pid)},
      "level_note":c['note'],
      "technique":c.get('technique',"contract-based deductive verification: WP-generated VCs over the real Go source, discharged by z3/cvc5"),
    })
na=[{"property_id":k,"reason":v} for k,v in meta['not_applicable'].items() if k not in meta['claimed']]
commits=subprocess.run(['git','-C','/repo','log','--format=%H %s','ddf41e4..HEAD'],capture_output=True,text=True).stdout.strip().split('\n')
m={"version":1,"setup_cmd":"sh /verif/setup.sh",
 "hooks":{"guard":"verif","enable":"contracts are comment-only files /repo/<pkg>/zz_verif_contracts.go behind //go:build verif (no declarations, nothing is compiled in); gvc reads them from /repo's working tree",
   "baseline_off_cmd":"cd /repo && go test -mod=mod -vet=off -count=1 ./...",
   "source_commits":[c.split()[0] for c in commits if c and ' verif:' in c],"add_only":True},
 "engines":[{"name":"gvc","path":"/verif/gvc","serves_properties":served,"kind_free_text":"contract-based deductive verifier for Go written for this task: weakest-precondition VC generation over go/ast+go/types of the functions in /repo, contracts in guarded comment files, obligations raced on z3 4.8.12 / z3 5.1.0 / cvc5 1.0, counterexamples replayed on the real code via go test -overlay"}],
 "checks":checks,"notes":meta.get('notes',''),"not_applicable":na}
json.dump(m,open(V+'/MANIFEST.json','w'),indent=1)
print("claimed",served,"n/a",[x['property_id'] for x in na])
