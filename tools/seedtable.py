#!/usr/bin/env python3
# Builds the "which checks catch which seeded changes" table (DESIGN.md §9) from seeded/RESULTS.tsv and seeded/*/meta.json.
import json, os, sys
V='/verif'
rows={}
for l in open(V+'/seeded/RESULTS.tsv'):
    p=l.rstrip('\n').split('\t')
    if len(p)>=3: rows[p[0]]=p
out=["| seed | what it breaks | quick checks run | caught by | first failing obligations |","|---|---|---|---|---|"]
caught=0
for s in sorted(d for d in os.listdir(V+'/seeded') if os.path.isdir(V+'/seeded/'+d)):
    m=json.load(open(V+'/seeded/%s/meta.json'%s))
    r=rows.get(s,[s,'-','NOT RUN',''])
    c=r[2].strip()
    if c not in ('MISSED','NOT RUN','PATCH-DOES-NOT-APPLY'): caught+=1
    ob=(r[3] if len(r)>3 else '').strip().strip(',').replace(',',', ')
    out.append("| %s | %s | %s | %s | %s |"%(s,m.get('breaks','').replace('|','/'),r[1].strip() or '-',c,ob[:160].replace('|','/')))
print('\n'.join(out))
print("\n%d of %d seeded changes are reported by at least one quick check."%(caught,len(out)-2))
