#!/bin/bash
# usage: seedcheck.sh [seed-id ...]   (default: every directory under /verif/seeded)
# For each seeded change: apply it to /repo's working tree (rebased variant if the original no longer applies), run
# the quick checks of every claimed property whose units live in a touched package (mutant self-tests off), record
# the VIOLATION lines, and restore the tree. /repo must be clean (contracts committed) before running.
# Output: /verif/seeded/RESULTS.tsv   (seed, property checks run, caught-by, first failing obligations)
export GOFLAGS=-mod=mod GOPROXY=off GOSUMDB=off GOTOOLCHAIN=local
cd /verif
if [ -n "$(git -C /repo status --porcelain)" ]; then echo "/repo is not clean"; exit 2; fi
# the evidence files are rewritten by every check run: keep the ones of the unchanged tree
EVBAK=$(mktemp -d); cp -a /verif/evidence/. $EVBAK/; trap 'cp -a $EVBAK/. /verif/evidence/; rm -rf $EVBAK' EXIT
seeds="$@"; [ -z "$seeds" ] && seeds=$(ls seeded | grep -E '^C[0-9]+-[AB]$')
claimed=$(python3 -c "import json;print(' '.join(c['property_id'] for c in json.load(open('MANIFEST.json'))['checks']))")
for s in $seeds; do
  d=seeded/$s; patch=$d/patch.diff
  if ! git -C /repo apply --check /verif/$patch 2>/dev/null; then
    if [ -f $d/patch.rebased-on-fix.diff ] && git -C /repo apply --check /verif/$d/patch.rebased-on-fix.diff 2>/dev/null; then patch=$d/patch.rebased-on-fix.diff
    elif git -C /repo apply -3 --check /verif/$patch 2>/dev/null; then :
    else echo -e "$s\t-\tPATCH-DOES-NOT-APPLY\t-" | tee -a seeded/RESULTS.new; continue; fi
  fi
  git -C /repo apply -3 /verif/$patch 2>/dev/null || git -C /repo apply /verif/$patch
  git -C /repo reset -q
  files=$(git -C /repo status --porcelain | awk '{print $2}')
  # properties whose props mention a touched package
  props=""
  for p in $claimed; do
    if python3 - "$p" $files <<'PY'
import json,sys,os
p=sys.argv[1]; files=sys.argv[2:]
cfg=json.load(open('/verif/props/%s.json'%p))
pk=set(os.path.normpath(x) for x in cfg['packages'])
pk|=set(os.path.normpath('./'+b['pkg']) for b in cfg.get('bounded',[]))
hit=any(os.path.normpath('./'+os.path.dirname(f)) in pk or (os.path.dirname(f)=='' and '.' in pk) for f in files)
sys.exit(0 if hit else 1)
PY
    then props="$props $p"; fi
  done
  # narrow down: keep a property only if one of its units is declared in a touched file (or it is the seed's own)
  props=$(python3 /verif/tools/props_for_files.py "$s" "$props" $files)
  caught=""; obls=""
  for p in $props; do
    out=$(bin/gvc check $p --tier quick --nomutants 2>&1 | grep -E "^VIOLATION" | head -3)
    if [ -n "$out" ]; then caught="$caught $p"; obls="$obls $(echo "$out" | sed -E 's/.*replay=\/verif\/replays\/[^\/]+\///; s/\.json.*//' | head -2 | tr '\n' ',')"; fi
  done
  git -C /repo checkout -q HEAD -- . ; git -C /repo clean -fdq
  echo -e "$s\t$props\t${caught:-MISSED}\t$obls" | tee -a seeded/RESULTS.new
done
