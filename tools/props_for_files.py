#!/usr/bin/env python3
# usage: props_for_files.py <seed-id> "<candidate props>" file...   -> the properties worth running for a change in these files:
# those with at least one unit whose function is declared in a touched file, plus the seed's own property.
import json, os, re, sys
seed, cands, files = sys.argv[1], sys.argv[2].split(), sys.argv[3:]
own = seed.split('-')[0]
src = {f: open('/repo/'+f).read() for f in files if f.endswith('.go') and os.path.exists('/repo/'+f)}
def declared_in(unit, text):
    u = unit.split('$')[0]
    m = re.match(r'^[\w./]+?\.\(\*?(\w+)\)\.(\w+)$', u) or re.match(r'^[\w./]+?\.(\w+)\.(\w+)$', u)
    if m:
        return re.search(r'func \(\w*\s*\*?%s\) %s\(' % (m.group(1), m.group(2)), text) is not None
    name = u.split('.')[-1]
    if name.startswith('init@'):
        return True
    return re.search(r'func %s\(' % re.escape(name), text) is not None
out = []
for p in cands:
    cfg = json.load(open('/verif/props/%s.json' % p))
    if p == own or any(declared_in(u, t) for u in cfg['units'] for t in src.values()):
        out.append(p)
print(' '.join(out))
