#!/bin/sh
# runs every claimed check (quick tier) and prints one line each; extra args are passed to gvc check
cd /verif
for p in $(python3 -c "import json;print(' '.join(c['property_id'] for c in json.load(open('MANIFEST.json'))['checks']))"); do
  bin/gvc check $p "$@" 2>&1 | grep -E "^(VIOLATION|KNOWN-FINDING|SELFTEST|NOT-VERIFIABLE|C[0-9]+ tier)" | cut -c1-220
done
