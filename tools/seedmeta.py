#!/usr/bin/env python3
# writes /verif/seeded/<id>/meta.json from verify.summary + notes
import sys,json,os,re
d=sys.argv[1]; prop=sys.argv[2]; needs=sys.argv[3]; what=sys.argv[4]
s=open(d+'/verify.summary').read().strip()
demo=[f for f in os.listdir(d) if f.endswith('_test.go')][0]
m={"property":prop,"breaks":what,"needs_to_manifest":needs,"demo":demo,
 "confirmed_by":"tools/verify_seed.sh in a scratch worktree: demo passes on the unchanged tree, change applies and the touched packages build, the 30 pinned tests pass with it, demo fails with it",
 "verify_summary":s}
json.dump(m,open(d+'/meta.json','w'),indent=1)
