package main

import (
	"fmt"
	"go/ast"
	"go/token"
	"go/types"
	"sort"
	"strings"

	"golang.org/x/tools/go/packages"
)

// Var is a program, heap, global or ghost variable; Version n is the SMT constant name!n.
type Var struct {
	Name string
	Sort string
	T    types.Type
	Heap bool // heap-like (participates in frame checks)
	next int
}

func (v *Var) at(n int) Term { return Term{S: sym(fmt.Sprintf("%s!%d", v.Name, n)), Sort: v.Sort, T: v.T} }

type Env map[*Var]int

func (e Env) clone() Env {
	n := make(Env, len(e))
	for k, v := range e {
		n[k] = v
	}
	return n
}

// Obligation is one proof goal: an assertion at a position in a block.
type Obligation struct {
	Name  string
	Kind  string
	Pos   string
	Desc  string
	Cover bool // must be SAT (vacuity check)
	Block *Block
	Index int
	Unit  string
	// filled by the solver
	Verdict string // unsat sat unknown timeout error
	Solver  string
	Time    float64
	Model   string
	Query   string
	ReplayF string // postcondition over entry symbols and rr$i result symbols (when it does not read the post heap)
}

type PStmt struct {
	Assert bool
	F      string
	Ob     *Obligation
}

type Block struct {
	ID    int
	Preds []*Block
	Stmts []PStmt
	Env   Env
	Decls []string
	Note  string
}

// Verifier is the global state of one gvc run.
type Verifier struct {
	Fset      *token.FileSet
	Pkgs      map[string]*packages.Package // by path
	PkgByName map[string]*packages.Package
	W         *World
	CS        *ContractSet
	Units     map[string]*Unit
	Errs      []string
	constVars map[string]bool
	ghostVars map[string]*SpecDecl
	ghostFlds map[string]*SpecDecl // by field name
	axiomsDone bool
	globalDecls []string // declarations of version-0 symbols and uninterpreted constants
	globalVars map[string]*Var
	Notes []string
	missing map[string]int
	axiomVars []*Var
}

// Unit is a function body under contract.
type Unit struct {
	Key      string
	Pkg      *packages.Package
	Decl     *ast.FuncDecl
	Lit      *ast.FuncLit
	Outer    *Unit
	Body     *ast.BlockStmt
	FType    *ast.FuncType
	Sig      *types.Signature
	Obj      *types.Func
	Contract *Contract
	Lits     []*ast.FuncLit // literals in source order (for the outermost decl)
}

func (u *Unit) pos(fset *token.FileSet, p token.Pos) string {
	if fset == nil {
		return ""
	}
	pp := fset.Position(p)
	return fmt.Sprintf("%s:%d", strings.TrimPrefix(pp.Filename, "/repo/"), pp.Line)
}

// funcKey is the contract key of a function object.
func funcKey(f *types.Func) string {
	f = f.Origin()
	sig := f.Type().(*types.Signature)
	pkg := ""
	if f.Pkg() != nil {
		pkg = shortPkg(f.Pkg().Path())
	}
	if recv := sig.Recv(); recv != nil {
		t := recv.Type()
		ptr := false
		if p, ok := t.(*types.Pointer); ok {
			t = p.Elem()
			ptr = true
		}
		name := "?"
		switch n := t.(type) {
		case *types.Named:
			name = n.Obj().Name()
			if n.Obj().Pkg() != nil {
				pkg = shortPkg(n.Obj().Pkg().Path())
			} else {
				pkg = ""
			}
		case *types.Alias:
			name = n.Obj().Name()
		default:
			name = typeKey(t)
		}
		if pkg == "" {
			return name + "." + f.Name()
		}
		if ptr {
			return pkg + ".(*" + name + ")." + f.Name()
		}
		return pkg + "." + name + "." + f.Name()
	}
	if pkg == "" {
		return f.Name()
	}
	return pkg + "." + f.Name()
}

// ---- translator ----

type loopCtx struct {
	label     string
	breaks    []*Block
	continues []*Block
	isSwitch  bool // break target only
}

type deferRec struct {
	call *ast.CallExpr
	flag *Var // non-nil if conditionally registered
	args []Term
	pos  token.Pos
	env  Env
	snap map[types.Object]*Var
	inLoop bool // registered inside a loop: run an unknown number of times on unknown objects
}

type tr struct {
	V      *Verifier
	u      *Unit
	pkg    *packages.Package
	info   *types.Info
	blocks []*Block
	cur    *Block
	root   *Block
	vars   map[types.Object]*Var
	named  map[string]*Var
	allVars []*Var
	guard  []Term
	counters map[string]int
	obls   []*Obligation
	errs   []string
	errSet map[string]bool
	returns []*Block
	panics  []*Block
	loops   []*loopCtx
	defers  []*deferRec
	results []*Var
	params  map[string]Term // entry values by name
	paramVars []*Var
	loopOrd int
	litOrd  int
	dry     int
	checked bool // overflow checked
	allocTop *Var
	panicking *Var
	panicVal *Var
	deferPrefix string // names the registration flags of deferred calls inside an inlined literal
	litInst int
	didPanic *Var // set when the exit sequence was entered through a panic (stays set after recover)
	returnedVars []*Var // result values at the return statement, before deferred calls
	labels map[string]string // pending label for next loop
	pendingLabel string
	tmpN int
	inDefer bool
	touched map[*Var]bool
	qcount int
	escaped map[types.Object]bool // locals living in a heap cell (address taken)
	captured []capturedVar
	rangeColl map[int]Term
	loopEntry map[int]Env // state on entry to each loop (for at_loop)
	loopHeadEnv map[int]Env // state at the head of the current iteration of each loop (for at_head)
	calledResults []Term
	spawnOnly     bool // translating the call of a go statement: assert the callee's preconditions only
	hasRecover bool
}

func (t *tr) errorf(pos token.Pos, f string, a ...interface{}) {
	msg := fmt.Sprintf(f, a...)
	if pos.IsValid() {
		msg = t.u.pos(t.V.Fset, pos) + ": " + msg
	}
	if t.errSet[msg] {
		return
	}
	t.errSet[msg] = true
	t.errs = append(t.errs, msg)
}

func (t *tr) newBlock(preds ...*Block) *Block {
	b := &Block{ID: len(t.blocks), Preds: preds}
	t.blocks = append(t.blocks, b)
	return b
}

func (t *tr) newVar(name, sort string, T types.Type, heap bool) *Var {
	if v, ok := t.named[name]; ok {
		return v
	}
	v := &Var{Name: name, Sort: sort, T: T, Heap: heap}
	t.named[name] = v
	t.allVars = append(t.allVars, v)
	return v
}

func (t *tr) tmpVar(prefix, sort string, T types.Type) *Var {
	t.tmpN++
	return t.newVar(fmt.Sprintf("%s$%d", prefix, t.tmpN), sort, T, false)
}

// read returns the current value of v in env.
func (t *tr) readIn(env Env, v *Var) Term { return v.at(env[v]) }
func (t *tr) read(v *Var) Term           { return v.at(t.cur.Env[v]) }

// fresh gives v a new version in the current block and returns it.
func (t *tr) fresh(v *Var) Term {
	prev := t.cur.Env[v]
	defer func() {
		// inside a guarded (short-circuit) expression a new version only differs from the old one when the guard holds
		if len(t.guard) > 0 {
			t.emit(PStmt{F: implies(not(t.guardTerm()), eq(v.at(t.cur.Env[v]), v.at(prev))).S})
		}
	}()
	v.next++
	n := v.next
	t.cur.Env[v] = n
	if v.Heap {
		t.touched[v] = true
	}
	tm := v.at(n)
	t.cur.Decls = append(t.cur.Decls, fmt.Sprintf("(declare-const %s %s)", tm.S, v.Sort))
	return tm
}

func (t *tr) assign(v *Var, val Term) {
	if t.cur == nil {
		return
	}
	if val.Sort != v.Sort {
		t.errorf(token.NoPos, "internal: sort mismatch assigning %s:%s := %s:%s", v.Name, v.Sort, val.S, val.Sort)
		return
	}
	nv := t.fresh(v)
	t.emit(PStmt{F: eq(nv, val).S})
}

func (t *tr) emit(s PStmt) {
	if t.cur == nil {
		return
	}
	t.cur.Stmts = append(t.cur.Stmts, s)
}

func (t *tr) guardTerm() Term { return and(t.guard...) }

func (t *tr) assume(f Term) {
	if t.cur == nil || f.S == "true" {
		return
	}
	t.emit(PStmt{F: implies(t.guardTerm(), f).S})
}

// assert emits an obligation (treated as an assumption for later statements).
func (t *tr) assert(f Term, kind, label string, pos token.Pos, desc string) *Obligation {
	if t.cur == nil {
		return nil
	}
	name := kind
	if label != "" {
		name += "/" + label
	}
	t.counters[name]++
	if n := t.counters[name]; n > 1 || strings.HasPrefix(kind, "safety") || strings.HasPrefix(kind, "pre/") {
		name = fmt.Sprintf("%s#%d", name, n)
	}
	g := implies(t.guardTerm(), f)
	ob := &Obligation{Name: t.u.Key + "/" + name, Kind: kind, Desc: desc, Block: t.cur, Index: len(t.cur.Stmts), Unit: t.u.Key}
	if pos.IsValid() {
		ob.Pos = t.u.pos(t.V.Fset, pos)
	}
	if g.S == "true" {
		// trivially true: still recorded (keeps names stable), discharged without a solver
		ob.Verdict = "unsat"
		ob.Solver = "trivial"
	}
	t.emit(PStmt{Assert: true, F: g.S, Ob: ob})
	if t.dry == 0 {
		t.obls = append(t.obls, ob)
	}
	return ob
}

// safety emits a run-time safety condition: an obligation, or — when the unit declares that it may panic —
// a branch to the panic exit (the declared panic condition is then checked there).
func (t *tr) safety(f Term, kind string, pos token.Pos, desc string) {
	if t.cur == nil {
		return
	}
	if kind == "safety/nil" && t.u.Contract != nil && t.u.Contract.Flags["trust_nil_safety"] == "true" {
		// nil-dereference safety is not an obligation of this unit (listed as an assumption)
		t.V.note("flag trust_nil_safety on " + t.u.Key + ": nil-dereference safety not checked in this unit")
		t.assume(f)
		return
	}
	if t.mayPanicOut() && len(t.guard) == 0 && !t.hasRecoverOnly() {
		if f.S == "true" {
			return
		}
		bt, bf := t.branch(f)
		t.cur = bf
		// the value of a run-time panic is a runtime.Error: of no user-visible dynamic type
		rpv := t.fresh(t.panicVal)
		t.V.W.declFun("dyntype", []string{SInt}, SInt)
		t.assume(and(neq(rpv, intLit(0)), eq(app("dyntype", SInt, rpv), intLit(-1))))
		t.panicExit(pos)
		t.cur = bt
		return
	}
	t.assert(f, kind, "", pos, desc)
}

// hasRecoverOnly: the unit recovers panics but does not declare any panic condition itself; run-time
// failures are then still obligations unless the contract carries `flag recover_safety`.
func (t *tr) hasRecoverOnly() bool {
	c := t.u.Contract
	declared := c != nil && (c.MayPanic || len(c.clauses("panics_if")) > 0)
	if declared {
		return false
	}
	return !(c != nil && c.Flags["recover_safety"] == "true")
}

// cover emits a reachability check: the current point must be reachable (SAT).
func (t *tr) cover(label string, pos token.Pos) {
	if t.cur == nil || t.dry > 0 {
		return
	}
	t.counters["cover/"+label]++
	name := "cover/" + label
	if n := t.counters[name]; n > 1 {
		name = fmt.Sprintf("%s#%d", name, n)
	}
	ob := &Obligation{Name: t.u.Key + "/" + name, Kind: "cover", Cover: true, Block: t.cur, Index: len(t.cur.Stmts), Unit: t.u.Key}
	if pos.IsValid() {
		ob.Pos = t.u.pos(t.V.Fset, pos)
	}
	t.obls = append(t.obls, ob)
}

// branch splits the current block on cond.
func (t *tr) branch(cond Term) (bt, bf *Block) {
	if t.cur == nil {
		return nil, nil
	}
	p := t.cur
	bt = t.newBlock(p)
	bt.Env = p.Env.clone()
	bt.Stmts = append(bt.Stmts, PStmt{F: cond.S})
	bf = t.newBlock(p)
	bf.Env = p.Env.clone()
	bf.Stmts = append(bf.Stmts, PStmt{F: not(cond).S})
	t.cur = nil
	return
}

// fork creates n successor blocks of the current block without conditions (nondeterministic choice).
func (t *tr) fork(n int) []*Block {
	if t.cur == nil {
		return make([]*Block, n)
	}
	p := t.cur
	out := make([]*Block, n)
	for i := range out {
		b := t.newBlock(p)
		b.Env = p.Env.clone()
		out[i] = b
	}
	t.cur = nil
	return out
}

// join merges open blocks into a new current block (nil if none).
func (t *tr) join(bs ...*Block) *Block {
	var live []*Block
	for _, b := range bs {
		if b != nil {
			live = append(live, b)
		}
	}
	if len(live) == 0 {
		return nil
	}
	if len(live) == 1 {
		return live[0]
	}
	nb := t.newBlock(live...)
	nb.Env = Env{}
	seen := map[*Var]bool{}
	var vs []*Var
	for _, b := range live {
		for v := range b.Env {
			if !seen[v] {
				seen[v] = true
				vs = append(vs, v)
			}
		}
	}
	sort.Slice(vs, func(i, j int) bool { return vs[i].Name < vs[j].Name })
	for _, v := range vs {
		same := true
		for _, b := range live[1:] {
			if b.Env[v] != live[0].Env[v] {
				same = false
				break
			}
		}
		if same {
			nb.Env[v] = live[0].Env[v]
			continue
		}
		v.next++
		n := v.next
		nb.Env[v] = n
		if v.Heap {
			t.touched[v] = true
		}
		nt := v.at(n)
		nb.Decls = append(nb.Decls, fmt.Sprintf("(declare-const %s %s)", nt.S, v.Sort))
		for _, b := range live {
			b.Stmts = append(b.Stmts, PStmt{F: eq(nt, v.at(b.Env[v])).S})
		}
	}
	return nb
}

type capturedVar struct {
	name string
	v    *Var
}

// ---- snapshots for dry runs (loop modified-set discovery) ----

type snapshot struct {
	nblocks  int
	cur      *Block
	curStmts int
	curDecls int
	curEnv   Env
	counters map[string]int
	vnext    map[*Var]int
	nvars    int
	nerrs    int
	tmpN     int
	loopOrd  int
	litOrd   int
	returns, panics int
	defers   int
	touched  map[*Var]bool
	nobls    int
	loopsBreaks [][2]int
}

func (t *tr) snap() *snapshot {
	s := &snapshot{nblocks: len(t.blocks), cur: t.cur, counters: map[string]int{}, vnext: map[*Var]int{}, nvars: len(t.allVars), nerrs: len(t.errs), tmpN: t.tmpN, loopOrd: t.loopOrd, litOrd: t.litOrd, returns: len(t.returns), panics: len(t.panics), defers: len(t.defers), nobls: len(t.obls)}
	if t.cur != nil {
		s.curStmts = len(t.cur.Stmts)
		s.curDecls = len(t.cur.Decls)
		s.curEnv = t.cur.Env.clone()
	}
	for k, v := range t.counters {
		s.counters[k] = v
	}
	for _, v := range t.allVars {
		s.vnext[v] = v.next
	}
	s.touched = map[*Var]bool{}
	for k := range t.touched {
		s.touched[k] = true
	}
	for _, l := range t.loops {
		s.loopsBreaks = append(s.loopsBreaks, [2]int{len(l.breaks), len(l.continues)})
	}
	return s
}

func (t *tr) restore(s *snapshot) {
	t.blocks = t.blocks[:s.nblocks]
	t.cur = s.cur
	if t.cur != nil {
		t.cur.Stmts = t.cur.Stmts[:s.curStmts]
		t.cur.Decls = t.cur.Decls[:s.curDecls]
		t.cur.Env = s.curEnv
	}
	t.counters = s.counters
	for _, v := range t.allVars[s.nvars:] {
		delete(t.named, v.Name)
		for o, ov := range t.vars {
			if ov == v {
				delete(t.vars, o)
			}
		}
	}
	t.allVars = t.allVars[:s.nvars]
	for v, n := range s.vnext {
		v.next = n
	}
	// errors found during a dry run are kept (they are deduplicated)
	t.tmpN = s.tmpN
	t.loopOrd = s.loopOrd
	t.litOrd = s.litOrd
	t.returns = t.returns[:s.returns]
	t.panics = t.panics[:s.panics]
	t.defers = t.defers[:s.defers]
	t.touched = s.touched
	t.obls = t.obls[:s.nobls]
	for i, l := range t.loops {
		if i < len(s.loopsBreaks) {
			l.breaks = l.breaks[:s.loopsBreaks[i][0]]
			l.continues = l.continues[:s.loopsBreaks[i][1]]
		}
	}
}

// ancestors returns the blocks from which b is reachable (including b), sorted by ID.
func ancestors(b *Block) []*Block {
	seen := map[*Block]bool{}
	var out []*Block
	var walk func(x *Block)
	walk = func(x *Block) {
		if seen[x] {
			return
		}
		seen[x] = true
		for _, p := range x.Preds {
			walk(p)
		}
		out = append(out, x)
	}
	walk(b)
	sort.Slice(out, func(i, j int) bool { return out[i].ID < out[j].ID })
	return out
}
