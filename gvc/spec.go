package main

import (
	"fmt"
	"sort"
	"go/ast"
	"go/constant"
	"go/token"
	"go/types"
	"math/big"
	"strconv"
	"strings"

	"golang.org/x/tools/go/packages"
)

// specCtx is the context in which a specification expression is evaluated.
type specCtx struct {
	pkg   *packages.Package
	vars  map[string]Term
	cur   Env
	old   Env
	pos   token.Pos // position for resolving local variables (loop invariants); NoPos otherwise
	where string
	depth int
	qn    *int
	loop  int // ordinal of the loop whose invariant is being evaluated (0 = none)
	bound map[string]bool // names bound by quantifiers / let / loop aliases: never shadowed by program variables
}

func (sc *specCtx) with(name string, v Term) *specCtx {
	n := *sc
	n.vars = make(map[string]Term, len(sc.vars)+1)
	for k, x := range sc.vars {
		n.vars[k] = x
	}
	n.vars[name] = v
	n.bound = make(map[string]bool, len(sc.bound)+1)
	for k := range sc.bound {
		n.bound[k] = true
	}
	n.bound[name] = true
	return &n
}

func (sc *specCtx) inOld() *specCtx {
	n := *sc
	n.cur = sc.old
	return &n
}

func (t *tr) specErr(sc *specCtx, f string, a ...interface{}) Term {
	msg := sc.where + ": spec: " + fmt.Sprintf(f, a...)
	if !t.errSet[msg] {
		t.errSet[msg] = true
		t.errs = append(t.errs, msg)
	}
	return Term{S: "false", Sort: SBool}
}

// resolveType resolves a Go type expression written in a contract, in the scope of pkg.
func (t *tr) resolveType(e ast.Expr, pkg *packages.Package) types.Type {
	switch x := e.(type) {
	case *ast.Ident:
		switch x.Name {
		case "Ref":
			return types.Typ[types.UnsafePointer]
		case "any":
			return types.NewInterfaceType(nil, nil)
		case "intmap": // total map int -> int (SMT array)
			return types.NewArray(types.Typ[types.Int], 0)
		}
		if pkg != nil {
			if o := pkg.Types.Scope().Lookup(x.Name); o != nil {
				if tn, ok := o.(*types.TypeName); ok {
					return tn.Type()
				}
			}
		}
		if o := types.Universe.Lookup(x.Name); o != nil {
			if tn, ok := o.(*types.TypeName); ok {
				return tn.Type()
			}
		}
	case *ast.SelectorExpr:
		if id, ok := x.X.(*ast.Ident); ok {
			if p := t.V.importedPkg(pkg, id.Name, x.Sel.Name); p != nil {
				if o := p.Types.Scope().Lookup(x.Sel.Name); o != nil {
					if tn, ok := o.(*types.TypeName); ok {
						return tn.Type()
					}
				}
			}
		}
	case *ast.StarExpr:
		if el := t.resolveType(x.X, pkg); el != nil {
			return types.NewPointer(el)
		}
	case *ast.ArrayType:
		el := t.resolveType(x.Elt, pkg)
		if el == nil {
			return nil
		}
		if x.Len == nil {
			return types.NewSlice(el)
		}
		if bl, ok := x.Len.(*ast.BasicLit); ok {
			n, _ := strconv.ParseInt(bl.Value, 0, 64)
			return types.NewArray(el, n)
		}
	case *ast.MapType:
		k, v := t.resolveType(x.Key, pkg), t.resolveType(x.Value, pkg)
		if k != nil && v != nil {
			return types.NewMap(k, v)
		}
	case *ast.ParenExpr:
		return t.resolveType(x.X, pkg)
	case *ast.InterfaceType:
		return types.NewInterfaceType(nil, nil)
	case *ast.StructType:
		if x.Fields == nil || len(x.Fields.List) == 0 {
			return types.NewStruct(nil, nil)
		}
	}
	return nil
}

// importedPkg resolves a package qualifier. When several packages share the name (std errors vs
// grailbio/base/errors), the one that declares `member` is chosen; ties are broken by path (deterministic).
func (v *Verifier) importedPkg(pkg *packages.Package, name string, member string) *packages.Package {
	var cands []*packages.Package
	if pkg != nil {
		for _, ip := range pkg.Imports {
			if ip.Name == name {
				cands = append(cands, ip)
			}
		}
		if pkg.Name == name {
			cands = append(cands, pkg)
		}
	}
	if len(cands) == 0 {
		// contracts may mention packages the code does not import
		for _, p := range v.Pkgs {
			if p.Name == name {
				cands = append(cands, p)
			}
		}
	}
	sort.Slice(cands, func(i, j int) bool { return cands[i].PkgPath < cands[j].PkgPath })
	var best *packages.Package
	for _, c := range cands {
		if c.Types == nil {
			continue
		}
		has := member == "" || c.Types.Scope().Lookup(member) != nil
		if has && (best == nil || (strings.HasPrefix(c.PkgPath, "github.com/grailbio/") && !strings.HasPrefix(best.PkgPath, "github.com/grailbio/"))) {
			best = c
		}
	}
	if best == nil && len(cands) > 0 {
		best = cands[0]
	}
	return best
}

func (t *tr) globalVar(o *types.Var) *Var {
	name := "G$" + shortPkg(o.Pkg().Path()) + "." + o.Name()
	return t.newVar(name, t.V.W.sortOf(o.Type()), o.Type(), true)
}

func (t *tr) ghostVar(d *SpecDecl) *Var {
	pkg := t.V.Pkgs[d.PkgPath]
	T := t.resolveType(d.Type, pkg)
	if T == nil {
		t.errorf(token.NoPos, "%s: cannot resolve type of ghostvar %s", d.Where, d.Name)
		T = types.Typ[types.Int]
	}
	return t.newVar("GV$"+d.Name, t.V.W.sortOf(T), T, true)
}

// specObj resolves a package-level object to a term.
func (t *tr) specObj(o types.Object, sc *specCtx) (Term, bool) {
	switch x := o.(type) {
	case *types.Const:
		return t.constTerm(x.Val(), x.Type())
	case *types.Var:
		if x.Parent() == x.Pkg().Scope() {
			return t.readIn(sc.cur, t.globalVar(x)), true
		}
	case *types.Nil:
		return Term{S: "0", Sort: SInt}, true
	case *types.Func:
		return t.funcValue(x), true
	}
	return Term{}, false
}

func (t *tr) funcValue(f *types.Func) Term {
	name := "fn$" + funcKey(f)
	t.V.declConst(name, SInt)
	return Term{S: sym(name), Sort: SInt, T: f.Type()}
}

func (v *Verifier) declConst(name, sort string) {
	v.W.declFun(name, nil, sort)
}

// spec evaluates a specification expression to a term.
func (t *tr) spec(e ast.Expr, sc *specCtx) Term {
	if e == nil {
		return tTrue
	}
	if sc.depth > 40 {
		return t.specErr(sc, "spec function recursion too deep")
	}
	switch x := e.(type) {
	case *ast.ParenExpr:
		return t.spec(x.X, sc)
	case *ast.BasicLit:
		switch x.Kind {
		case token.INT:
			v, ok := new(big.Int).SetString(x.Value, 0)
			if !ok {
				return t.specErr(sc, "bad int literal %s", x.Value)
			}
			r := bigLit(v)
			r.T = types.Typ[types.Int]
			return r
		case token.STRING:
			s, _ := strconv.Unquote(x.Value)
			return t.V.W.strLit(s)
		case token.CHAR:
			s, _ := strconv.Unquote(x.Value)
			r := intLit(int64([]rune(s)[0]))
			r.T = types.Typ[types.Int32]
			return r
		case token.FLOAT:
			return t.V.W.fltLit(x.Value)
		}
	case *ast.Ident:
		return t.specIdent(x, sc)
	case *ast.UnaryExpr:
		switch x.Op {
		case token.NOT:
			return not(t.spec(x.X, sc))
		case token.SUB:
			v := t.spec(x.X, sc)
			if c, ok := constInt(v); ok {
				r := bigLit(new(big.Int).Neg(c))
				r.T = v.T
				return r
			}
			r := app("-", SInt, v)
			r.T = v.T
			return r
		case token.ADD:
			return t.spec(x.X, sc)
		}
	case *ast.StarExpr:
		p := t.spec(x.X, sc)
		return t.specDeref(p, sc)
	case *ast.BinaryExpr:
		a := t.spec(x.X, sc)
		b := t.spec(x.Y, sc)
		a, b = t.specCoerce(a, b)
		var rt types.Type
		switch x.Op {
		case token.ADD, token.SUB, token.MUL, token.QUO, token.REM, token.AND, token.OR, token.XOR, token.SHL, token.SHR, token.AND_NOT:
			rt = a.T
			if rt == nil || (isUntypedish(a) && b.T != nil) {
				rt = b.T
			}
		}
		return t.binop(x.Op, a, b, rt, token.NoPos, false)
	case *ast.SelectorExpr:
		return t.specSelector(x, sc)
	case *ast.IndexExpr:
		a := t.spec(x.X, sc)
		i := t.spec(x.Index, sc)
		if a.T != nil {
			if m, ok := a.T.Underlying().(*types.Map); ok {
				if isInterface(m.Key()) && i.T != nil && !isInterface(i.T) {
					i = t.box(i, i.T, m.Key())
				}
			}
		}
		if a.T != nil {
			if m, ok := a.T.Underlying().(*types.Map); ok {
				// Go semantics: the zero value for absent keys (and nil maps)
				dom, val, _ := t.mapHeaps(m)
				present := and(neq(a, intLit(0)), sel(sel(t.readIn(sc.cur, dom), a), i))
				r := ite(present, sel(sel(t.readIn(sc.cur, val), a), i), t.V.W.zero(m.Elem()))
				r.T = m.Elem()
				return r
			}
		}
		r, ok := t.elemAt(sc.cur, a, i)
		if !ok {
			if strings.HasPrefix(a.Sort, "(Array ") {
				return sel(a, i)
			}
			return t.specErr(sc, "cannot index %s (type %v)", a.S, a.T)
		}
		return r
	case *ast.SliceExpr:
		a := t.spec(x.X, sc)
		if a.Sort != SSlice {
			return t.specErr(sc, "slice expression on non-slice %s", a.S)
		}
		lo, hi := Term(intLit(0)), slLen(a)
		if x.Low != nil {
			lo = t.spec(x.Low, sc)
		}
		if x.High != nil {
			hi = t.spec(x.High, sc)
		}
		r := mkSlice(slArr(a), add(slOff(a), lo), sub(hi, lo), sub(slCap(a), lo))
		r.T = a.T
		return r
	case *ast.CallExpr:
		return t.specCall(x, sc)
	case *ast.CompositeLit:
		// struct values only: T{a, b} or T{f: a}
		T := t.resolveType(x.Type, sc.pkg)
		if T == nil {
			return t.specErr(sc, "composite literal: unknown type")
		}
		u, ok := T.Underlying().(*types.Struct)
		if !ok {
			return t.specErr(sc, "composite literal: only struct values are supported in specifications")
		}
		W := t.V.W
		ss := W.structSortOf(T, u)
		args := make([]Term, len(ss.Fields))
		for i, f := range ss.Fields {
			args[i] = W.zeroOfSort(f.Sort, f.T)
		}
		put := func(idx int, v Term) {
			f := ss.Fields[idx]
			if v.T != nil && isInterface(f.T) && !isInterface(v.T) && v.S != "0" {
				v = t.box(v, v.T, f.T)
			}
			if v.Sort != f.Sort {
				if v.S == "0" && f.Sort == SSlice {
					v = W.zero(f.T)
				} else {
					t.specErr(sc, "composite literal: field %s has sort %s, value %s has sort %s", f.Name, f.Sort, v.S, v.Sort)
					return
				}
			}
			args[idx] = v
		}
		for i, el := range x.Elts {
			if kv, ok := el.(*ast.KeyValueExpr); ok {
				id, ok := kv.Key.(*ast.Ident)
				idx := -1
				if ok {
					idx = ss.fieldIndex(id.Name)
				}
				if idx < 0 {
					return t.specErr(sc, "composite literal: unknown field")
				}
				put(idx, t.spec(kv.Value, sc))
			} else if i < len(args) {
				put(i, t.spec(el, sc))
			}
		}
		var r Term
		if len(args) == 0 {
			r = Term{S: ss.ctor(), Sort: ss.Name}
		} else {
			r = app(ss.ctor(), ss.Name, args...)
		}
		r.T = T
		return r
	}
	return t.specErr(sc, "unsupported spec expression %T", e)
}

func isUntypedish(a Term) bool {
	_, ok := constInt(a)
	return ok
}

// specCoerce reconciles operand sorts: nil vs slice, nil vs interface, boxing of concrete values compared with interfaces.
func (t *tr) specCoerce(a, b Term) (Term, Term) {
	if a.Sort == SSlice && b.S == "0" && b.Sort == SInt {
		return slArr(a), b
	}
	if b.Sort == SSlice && a.S == "0" && a.Sort == SInt {
		return a, slArr(b)
	}
	return a, b
}

func (t *tr) specIdent(x *ast.Ident, sc *specCtx) Term {
	switch x.Name {
	case "true":
		return tTrue
	case "false":
		return tFalse
	case "nil":
		return Term{S: "0", Sort: SInt}
	case "allocTop":
		return t.readIn(sc.cur, t.allocTop)
	case "range_coll": // the collection ranged over by the loop whose invariant this is (evaluated once, before the loop)
		if c, ok := t.rangeColl[sc.loop]; ok {
			return c
		}
		return t.specErr(sc, "range_coll used outside a range loop invariant")
	case "range_visited": // the set of keys visited so far by the map range loop whose invariant this is
		if v, ok := t.named[fmt.Sprintf("range_visited$%d", sc.loop)]; ok {
			return t.readIn(sc.cur, v)
		}
		return t.specErr(sc, "range_visited used outside a map range loop invariant")
	case "range_idx":
		if v, ok := t.named[fmt.Sprintf("range_idx$%d", sc.loop)]; ok {
			return t.readIn(sc.cur, v)
		}
		return t.specErr(sc, "range_idx used outside a range loop invariant")
	}
	if strings.HasPrefix(x.Name, "range_idx") && len(x.Name) > len("range_idx") {
		if v, ok := t.named["range_idx$"+x.Name[len("range_idx"):]]; ok {
			return t.readIn(sc.cur, v)
		}
	}
	if strings.HasPrefix(x.Name, "range_coll") && len(x.Name) > len("range_coll") {
		if k, err := strconv.Atoi(x.Name[len("range_coll"):]); err == nil {
			if c, ok := t.rangeColl[k]; ok {
				return c
			}
		}
	}
	if v, ok := sc.vars[x.Name]; ok && (sc.bound[x.Name] || !sc.pos.IsValid()) {
		return v
	}
	// in a loop invariant, program variables (including parameters and variables shadowing them) denote their
	// current values; old(x) gives a parameter's entry value
	if sc.pos.IsValid() && t.u != nil {
		if sc2 := t.pkg.Types.Scope().Innermost(sc.pos); sc2 != nil {
			if _, o := sc2.LookupParent(x.Name, sc.pos); o != nil {
				if lv, ok := o.(*types.Var); ok && lv.Parent() != lv.Pkg().Scope() {
					if v, ok := t.vars[lv]; ok {
						return t.readIn(sc.cur, v)
					}
				}
			}
		}
	}
	if v, ok := sc.vars[x.Name]; ok {
		return v
	}
	if d, ok := t.V.ghostVars[x.Name]; ok {
		return t.readIn(sc.cur, t.ghostVar(d))
	}
	if sc.pkg != nil {
		if o := sc.pkg.Types.Scope().Lookup(x.Name); o != nil {
			if r, ok := t.specObj(o, sc); ok {
				return r
			}
		}
	}
	return t.specErr(sc, "unknown identifier %s", x.Name)
}

func (t *tr) specDeref(p Term, sc *specCtx) Term {
	if p.T == nil {
		return t.specErr(sc, "dereference of untyped term %s", p.S)
	}
	pt, ok := p.T.Underlying().(*types.Pointer)
	if !ok {
		return t.specErr(sc, "dereference of non-pointer %s", p.S)
	}
	if st, ok := pt.Elem().Underlying().(*types.Struct); ok {
		return t.loadStruct(sc.cur, p, pt.Elem(), st)
	}
	r := sel(t.readIn(sc.cur, t.ptrHeap(pt.Elem())), p)
	r.T = pt.Elem()
	return r
}

func (t *tr) specSelector(x *ast.SelectorExpr, sc *specCtx) Term {
	if id, ok := x.X.(*ast.Ident); ok {
		if _, shadow := sc.vars[id.Name]; !shadow {
			isLocal := false
			if sc.pos.IsValid() {
				if s := t.pkg.Types.Scope().Innermost(sc.pos); s != nil {
					if _, o := s.LookupParent(id.Name, sc.pos); o != nil {
						if _, ok := o.(*types.Var); ok {
							isLocal = true
						}
					}
				}
			}
			if !isLocal {
				if p := t.V.importedPkg(sc.pkg, id.Name, x.Sel.Name); p != nil && (sc.pkg == nil || sc.pkg.Types.Scope().Lookup(id.Name) == nil) {
					o := p.Types.Scope().Lookup(x.Sel.Name)
					if o == nil {
						return t.specErr(sc, "unknown %s.%s", id.Name, x.Sel.Name)
					}
					r, ok := t.specObj(o, sc)
					if !ok {
						return t.specErr(sc, "cannot use %s.%s in a spec", id.Name, x.Sel.Name)
					}
					return r
				}
			}
		}
	}
	base := t.spec(x.X, sc)
	return t.specField(base, x.Sel.Name, sc)
}

func (t *tr) specField(base Term, name string, sc *specCtx) Term {
	if base.Sort == SSlice {
		switch name {
		case "arr":
			return slArr(base)
		case "off":
			return slOff(base)
		}
	}
	if path := findFieldPath(base.T, name, 0); path != nil {
		cur := base
		for _, idx := range path {
			r, ok := t.loadFieldIdx(sc.cur, cur, idx)
			if !ok {
				return t.specErr(sc, "cannot select field %s", name)
			}
			cur = r
		}
		return cur
	}
	if d, ok := t.V.ghostFlds[name]; ok && base.Sort == SInt {
		T := t.resolveType(d.Type, t.V.Pkgs[d.PkgPath])
		if T == nil {
			return t.specErr(sc, "cannot resolve type of ghost field %s", name)
		}
		srt := t.V.W.sortOf(T)
		r := sel(t.readIn(sc.cur, t.ghostFieldHeap(d, srt)), base)
		r.T = T
		return r
	}
	return t.specErr(sc, "no field %s in %s (type %v)", name, base.S, base.T)
}

func (t *tr) specCall(c *ast.CallExpr, sc *specCtx) Term {
	name := ""
	switch f := c.Fun.(type) {
	case *ast.Ident:
		name = f.Name
	case *ast.ParenExpr, *ast.StarExpr, *ast.ArrayType, *ast.SelectorExpr:
		// conversion to a type: (*T)(x), []T(x), pkg.T(x)
		if T := t.resolveType(c.Fun, sc.pkg); T != nil && len(c.Args) == 1 {
			return t.convert(t.spec(c.Args[0], sc), T, token.NoPos)
		}
		return t.specErr(sc, "unsupported call in spec")
	default:
		return t.specErr(sc, "unsupported call in spec")
	}
	arg := func(i int) Term { return t.spec(c.Args[i], sc) }
	need := func(n int) bool {
		if len(c.Args) != n {
			t.specErr(sc, "%s expects %d arguments", name, n)
			return false
		}
		return true
	}
	switch name {
	case "old":
		if !need(1) {
			return tFalse
		}
		return t.spec(c.Args[0], sc.inOld())
	case "at_head": // at_head(e): e evaluated at the head of the current iteration of the loop whose step clause this is
		if !need(1) {
			return tFalse
		}
		henv, ok := t.loopHeadEnv[sc.loop]
		if !ok {
			return t.specErr(sc, "at_head used outside a loop step clause")
		}
		hn := *sc
		hn.cur = henv
		return t.spec(c.Args[0], &hn)
	case "at_loop": // at_loop(k, e): e evaluated in the state in which loop k was (last) entered from outside
		if !need(2) {
			return tFalse
		}
		kl, ok := c.Args[0].(*ast.BasicLit)
		if !ok {
			return t.specErr(sc, "at_loop: first argument must be a loop ordinal")
		}
		k, _ := strconv.Atoi(kl.Value)
		env, ok := t.loopEntry[k]
		if !ok {
			return t.specErr(sc, "at_loop: loop %d has not been entered at this point", k)
		}
		n := *sc
		n.cur = env
		return t.spec(c.Args[1], &n)
	case "implies":
		if !need(2) {
			return tFalse
		}
		return implies(arg(0), arg(1))
	case "iff":
		if !need(2) {
			return tFalse
		}
		return eq(arg(0), arg(1))
	case "ite":
		if !need(3) {
			return tFalse
		}
		a, b := arg(1), arg(2)
		a, b = t.specCoerce(a, b)
		r := ite(arg(0), a, b)
		if r.T == nil {
			r.T = b.T
		}
		return r
	case "forall", "exists":
		if len(c.Args) != 2 && len(c.Args) != 3 && len(c.Args) != 4 {
			return t.specErr(sc, "%s(i, lo, hi, P), %s(i, P) or %s(k, T, P)", name, name, name)
		}
		id, ok := c.Args[0].(*ast.Ident)
		if !ok {
			return t.specErr(sc, "%s: first argument must be an identifier", name)
		}
		*sc.qn++
		bv := Term{S: sym(fmt.Sprintf("%s$q%d", id.Name, *sc.qn)), Sort: SInt, T: types.Typ[types.Int]}
		if len(c.Args) == 3 {
			// typed binder: forall(k, T, P) quantifies over all values of (the encoding of) Go type T
			T := t.resolveType(c.Args[1], sc.pkg)
			if T == nil {
				return t.specErr(sc, "%s: unknown type", name)
			}
			bv.Sort, bv.T = t.V.W.sortOf(T), T
			p := t.spec(c.Args[2], sc.with(id.Name, bv))
			if name == "forall" {
				return forallT([]Term{bv}, p)
			}
			return existsT([]Term{bv}, p)
		}
		sc2 := sc.with(id.Name, bv)
		var body Term
		if len(c.Args) == 4 {
			lo, hi := t.spec(c.Args[1], sc), t.spec(c.Args[2], sc)
			p := t.spec(c.Args[3], sc2)
			rng := and(le(lo, bv), lt(bv, hi))
			if name == "forall" {
				body = implies(rng, p)
			} else {
				body = and(rng, p)
			}
		} else {
			body = t.spec(c.Args[1], sc2)
		}
		if len(c.Args) == 4 {
			// Normalise to absolute indices: when the bound variable occurs only as (+ (off S) i) for one slice S,
			// quantify over j = off+i instead, so that solvers get the clean trigger (select a j).
			lo, hi := t.spec(c.Args[1], sc), t.spec(c.Args[2], sc)
			p := t.spec(c.Args[3], sc2)
			if off, ok := soleOffsetUse(p.S, bv.S); ok {
				// j = off + i: offset uses become j, any other use of i becomes (j - off)
				ps := strings.ReplaceAll(p.S, "(+ "+off+" "+bv.S+")", "\x00")
				ps = replaceSymbol(ps, bv.S, "(- "+bv.S+" "+off+")")
				ps = strings.ReplaceAll(ps, "\x00", bv.S)
				np := Term{S: ps, Sort: SBool}
				o := Term{S: off, Sort: SInt}
				rng := and(le(add(o, lo), bv), lt(bv, add(o, hi)))
				if name == "forall" {
					return forallT([]Term{bv}, implies(rng, np))
				}
				return existsT([]Term{bv}, and(rng, np))
			}
		}
		if name == "forall" {
			return forallT([]Term{bv}, body)
		}
		return existsT([]Term{bv}, body)
	case "len":
		if !need(1) {
			return tFalse
		}
		r, ok := t.lenOf(sc.cur, arg(0))
		if !ok {
			return t.specErr(sc, "len of %s", arg(0).S)
		}
		return r
	case "cap":
		if !need(1) {
			return tFalse
		}
		a := arg(0)
		if a.Sort != SSlice {
			return t.specErr(sc, "cap of non-slice")
		}
		r := slCap(a)
		r.T = types.Typ[types.Int]
		return r
	case "min", "max":
		if !need(2) {
			return tFalse
		}
		a := arg(0)
		r := app("i"+name, SInt, a, arg(1))
		r.T = a.T
		return r
	case "has": // has(m, k): key k is present in map m
		if !need(2) {
			return tFalse
		}
		m, k := arg(0), arg(1)
		mt, ok := typeAsMap(m.T)
		if !ok {
			return t.specErr(sc, "has: not a map: %s", m.S)
		}
		dom, _, _ := t.mapHeaps(mt)
		return and(neq(m, intLit(0)), sel(sel(t.readIn(sc.cur, dom), m), k)) // a nil map has no keys
	case "allocated":
		if !need(1) {
			return tFalse
		}
		a := arg(0)
		if a.Sort == SSlice {
			a = slArr(a)
		}
		return and(lt(intLit(0), a), le(a, t.readIn(sc.cur, t.allocTop)))
	case "fresh": // allocated now, not allocated in the old state
		if !need(1) {
			return tFalse
		}
		a := arg(0)
		if a.Sort == SSlice {
			a = slArr(a)
		}
		return and(lt(t.readIn(sc.old, t.allocTop), a), le(a, t.readIn(sc.cur, t.allocTop)))
	case "inrange": // inrange(x, T)
		if !need(2) {
			return tFalse
		}
		T := t.resolveType(c.Args[1], sc.pkg)
		if T == nil {
			return t.specErr(sc, "inrange: unknown type")
		}
		return inRange(arg(0), T)
	case "hastype": // hastype(x, T): dynamic type of interface x
		if !need(2) {
			return tFalse
		}
		T := t.resolveType(c.Args[1], sc.pkg)
		if T == nil {
			return t.specErr(sc, "hastype: unknown type")
		}
		return t.hasDynType(arg(0), T)
	case "unbox": // unbox(x, T)
		if !need(2) {
			return tFalse
		}
		T := t.resolveType(c.Args[1], sc.pkg)
		if T == nil {
			return t.specErr(sc, "unbox: unknown type")
		}
		return t.unbox(arg(0), T)
	case "boxed": // boxed(x, I): x converted to interface type I
		if !need(2) {
			return tFalse
		}
		T := t.resolveType(c.Args[1], sc.pkg)
		a := arg(0)
		if T == nil || a.T == nil {
			return t.specErr(sc, "boxed: unknown type")
		}
		return t.box(a, a.T, T)
	case "elemsof": // elemsof(s): the backing array of slice s (absolute indices), as an array value
		if !need(1) {
			return tFalse
		}
		a := arg(0)
		if a.Sort != SSlice || a.T == nil {
			return t.specErr(sc, "elemsof: not a slice: %s", a.S)
		}
		st := a.T.Underlying().(*types.Slice)
		es := t.V.W.sortOf(st.Elem())
		r := sel(t.readIn(sc.cur, t.elemHeapT(st.Elem(), es)), slArr(a))
		r.T = types.NewArray(st.Elem(), 0)
		return r
	case "let": // let(v, e, body): body with v bound to the value of e in the current context (useful around old())
		if !need(3) {
			return tFalse
		}
		id, ok := c.Args[0].(*ast.Ident)
		if !ok {
			return t.specErr(sc, "let: first argument must be an identifier")
		}
		return t.spec(c.Args[2], sc.with(id.Name, arg(1)))
	case "addr": // addr(p.f): interior address of struct-typed field f of the object p points to
		if !need(1) {
			return tFalse
		}
		se, ok := c.Args[0].(*ast.SelectorExpr)
		if !ok {
			return t.specErr(sc, "addr: want addr(p.f)")
		}
		base := t.spec(se.X, sc)
		named, st, isPtr := derefStruct(base.T)
		if st == nil || !isPtr {
			return t.specErr(sc, "addr: %s is not a pointer to a struct", base.S)
		}
		idx := fieldIndexByName(st, se.Sel.Name)
		if idx < 0 {
			return t.specErr(sc, "addr: no field %s", se.Sel.Name)
		}
		name := "faddr$" + typeKey(named) + "." + se.Sel.Name
		t.V.W.declFun(name, []string{SInt}, SInt)
		t.V.W.declFun(name+"~inv", []string{SInt}, SInt)
		t.V.W.declFun("faddr~tag", []string{SInt}, SInt)
		t.V.W.addAxiom(name, fmt.Sprintf("(forall ((p Int)) (! (and (< (%s p) 0) (= (%s (%s p)) p) (= (faddr~tag (%s p)) %d)) :pattern ((%s p))))", sym(name), sym(name+"~inv"), sym(name), sym(name), faddrTag(name), sym(name)))
		r := app(sym(name), SInt, base)
		r.T = types.NewPointer(st.Field(idx).Type())
		return r
	case "upd": // upd(a, i, v): array a with index i set to v
		if !need(3) {
			return tFalse
		}
		a := arg(0)
		if !strings.HasPrefix(a.Sort, "(Array ") {
			return t.specErr(sc, "upd: not an array: %s", a.S)
		}
		r := store(a, arg(1), arg(2))
		r.T = a.T
		return r
	case "dyntype":
		if !need(1) {
			return tFalse
		}
		t.V.W.declFun("dyntype", []string{SInt}, SInt)
		return app("dyntype", SInt, arg(0))
	case "slice": // slice(arr, off, len, cap) as []T: slice(T, arr, off, len, cap)
		if !need(5) {
			return tFalse
		}
		T := t.resolveType(c.Args[0], sc.pkg)
		if T == nil {
			return t.specErr(sc, "slice: unknown elem type")
		}
		r := mkSlice(arg(1), arg(2), arg(3), arg(4))
		r.T = types.NewSlice(T)
		return r
	}
	// spec function?
	if sf, ok := t.V.CS.SpecFuncs[name]; ok {
		return t.specApply(sf, c, sc)
	}
	// conversion to a named/basic type
	if T := t.resolveType(c.Fun, sc.pkg); T != nil && len(c.Args) == 1 {
		return t.convert(arg(0), T, token.NoPos)
	}
	return t.specErr(sc, "unknown spec function %s", name)
}

func typeAsMap(T types.Type) (*types.Map, bool) {
	if T == nil {
		return nil, false
	}
	m, ok := T.Underlying().(*types.Map)
	return m, ok
}

func (t *tr) specApply(sf *SpecFunc, c *ast.CallExpr, sc *specCtx) Term {
	if len(c.Args) != len(sf.Params) {
		return t.specErr(sc, "spec func %s expects %d arguments", sf.Name, len(sf.Params))
	}
	spkg := t.V.Pkgs[sf.PkgPath]
	args := make([]Term, len(c.Args))
	var sorts []string
	for i, a := range c.Args {
		args[i] = t.spec(a, sc)
		PT := t.resolveType(sf.Params[i].Type, spkg)
		if PT == nil {
			return t.specErr(sc, "spec func %s: cannot resolve type of parameter %s", sf.Name, sf.Params[i].Name)
		}
		ps := t.V.W.sortOf(PT)
		if args[i].Sort != ps {
			if ps == SInt && args[i].Sort == SSlice {
				return t.specErr(sc, "spec func %s: argument %d has sort %s, want %s", sf.Name, i, args[i].Sort, ps)
			}
			if isInterface(PT) && args[i].T != nil && !isInterface(args[i].T) {
				args[i] = t.box(args[i], args[i].T, PT)
			} else {
				return t.specErr(sc, "spec func %s: argument %d (%s) has sort %s, want %s", sf.Name, i, args[i].S, args[i].Sort, ps)
			}
		}
		args[i].T = PT
		sorts = append(sorts, ps)
	}
	RT := t.resolveType(sf.Ret, spkg)
	if RT == nil {
		return t.specErr(sc, "spec func %s: cannot resolve result type", sf.Name)
	}
	if sf.Body == nil {
		rs := t.V.W.sortOf(RT)
		t.V.W.declFun("sf$"+sf.Name, sorts, rs)
		r := app(sym("sf$"+sf.Name), rs, args...)
		if len(args) == 0 {
			r = Term{S: sym("sf$" + sf.Name), Sort: rs}
		}
		r.T = RT
		return r
	}
	sc2 := *sc
	sc2.pkg = spkg
	sc2.pos = token.NoPos
	sc2.depth = sc.depth + 1
	sc2.vars = map[string]Term{}
	for i, p := range sf.Params {
		sc2.vars[p.Name] = args[i]
	}
	sc2.where = sf.Where
	r := t.spec(sf.Body, &sc2)
	if r.T == nil {
		r.T = RT
	}
	return r
}

// soleOffsetUse reports whether every occurrence of bound variable v in f has the form (+ (off S) v) for a
// single slice term S, returning the text of (off S).
func soleOffsetUse(f, v string) (string, bool) {
	total := 0
	off := ""
	for i := 0; ; {
		k := strings.Index(f[i:], v)
		if k < 0 {
			break
		}
		k += i
		i = k + len(v)
		// must be a whole symbol
		if i < len(f) && !strings.ContainsRune(" )", rune(f[i])) {
			continue
		}
		total++
		// offset use: "(+ T v)" with T a parenthesised term; other uses are allowed (they are rewritten to v - T)
		if k < 1 || f[k-1] != ' ' || k < 2 || f[k-2] != ')' {
			continue
		}
		// find the matching '(' of the term ending at k-2
		depth := 0
		j := k - 2
		for ; j >= 0; j-- {
			if f[j] == ')' {
				depth++
			} else if f[j] == '(' {
				depth--
				if depth == 0 {
					break
				}
			}
		}
		if j < 3 || f[j-3:j] != "(+ " || i >= len(f) || f[i] != ')' {
			continue
		}
		if strings.Contains(f[j:k-1], v) {
			continue
		}
		o := f[j : k-1]
		if off == "" {
			off = o // the first slice offset found is used for the change of variable
		}
	}
	if total == 0 || off == "" {
		return "", false
	}
	return off, true
}

// replaceSymbol replaces whole-symbol occurrences of sym in an SMT-LIB text.
func replaceSymbol(f, sym, by string) string {
	var b strings.Builder
	for i := 0; i < len(f); {
		k := strings.Index(f[i:], sym)
		if k < 0 {
			b.WriteString(f[i:])
			break
		}
		k += i
		end := k + len(sym)
		before := k == 0 || strings.ContainsRune(" (", rune(f[k-1]))
		after := end >= len(f) || strings.ContainsRune(" )", rune(f[end]))
		b.WriteString(f[i:k])
		if before && after {
			b.WriteString(by)
		} else {
			b.WriteString(sym)
		}
		i = end
	}
	return b.String()
}

var _ = constant.MakeBool
