package main

import (
	"fmt"
	"go/ast"
	"go/token"
	"go/types"
)

func (t *tr) typeOf(e ast.Expr) types.Type {
	if tv, ok := t.info.Types[e]; ok && tv.Type != nil {
		return tv.Type
	}
	if id, ok := e.(*ast.Ident); ok {
		if o := t.info.ObjectOf(id); o != nil {
			return o.Type()
		}
	}
	return nil
}

func (t *tr) localVar(o types.Object) *Var {
	if v, ok := t.vars[o]; ok {
		return v
	}
	name := fmt.Sprintf("L$%s", o.Name())
	if _, dup := t.named[name]; dup {
		name = fmt.Sprintf("L$%s@%d", o.Name(), t.V.Fset.Position(o.Pos()).Line)
		for i := 2; ; i++ {
			if _, dup := t.named[name]; !dup {
				break
			}
			name = fmt.Sprintf("L$%s@%d.%d", o.Name(), t.V.Fset.Position(o.Pos()).Line, i)
		}
	}
	v := t.newVar(name, t.V.W.sortOf(o.Type()), o.Type(), false)
	t.vars[o] = v
	return v
}

// havocTerm returns a fresh arbitrary value of Go type T (with its type invariant assumed).
func (t *tr) havocTerm(prefix string, T types.Type) Term {
	v := t.tmpVar(prefix, t.V.W.sortOf(T), T)
	if t.cur == nil {
		return v.at(0)
	}
	x := t.fresh(v)
	t.assume(t.typeInv(x, T, t.cur.Env))
	return x
}

func (t *tr) havocSort(prefix, sort string) Term {
	v := t.tmpVar(prefix, sort, nil)
	if t.cur == nil {
		return v.at(0)
	}
	return t.fresh(v)
}

// ev evaluates a Go expression in the current block, emitting safety obligations.
func (t *tr) ev(e ast.Expr) Term {
	if t.cur == nil {
		T := t.typeOf(e)
		if T == nil {
			return Term{S: "0", Sort: SInt}
		}
		if _, ok := T.(*types.Tuple); ok {
			return Term{S: "0", Sort: SInt}
		}
		return t.V.W.zero(T)
	}
	if tv, ok := t.info.Types[e]; ok && tv.Value != nil {
		if r, ok := t.constTerm(tv.Value, tv.Type); ok {
			return r
		}
	}
	T := t.typeOf(e)
	switch x := e.(type) {
	case *ast.ParenExpr:
		return t.ev(x.X)
	case *ast.Ident:
		return t.evIdent(x)
	case *ast.BasicLit:
		t.errorf(x.Pos(), "unexpected non-constant literal")
	case *ast.FuncLit:
		t.litOrd++
		name := fmt.Sprintf("lit$%s$%d", t.u.Key, t.litIndex(x))
		t.V.declConst(name, SInt)
		t.assume(neq(Term{S: sym(name), Sort: SInt}, intLit(0))) // a function literal is never nil
		return Term{S: sym(name), Sort: SInt, T: T}
	case *ast.UnaryExpr:
		switch x.Op {
		case token.NOT:
			return not(t.ev(x.X))
		case token.SUB:
			v := t.ev(x.X)
			if v.Sort == SFlt {
				t.V.W.declFun("fneg", []string{SFlt}, SFlt)
				r := app("fneg", SFlt, v)
				r.T = T
				return r
			}
			r := app("-", SInt, v)
			r.T = T
			if isUnsigned(T) {
				return wrapTo(r, T)
			}
			return r
		case token.ADD:
			return t.ev(x.X)
		case token.XOR:
			v := t.ev(x.X)
			r := sub(app("-", SInt, v), intLit(1))
			if isUnsigned(T) {
				_, hi, _ := intRange(T)
				r = sub(bigLit(hi), v)
			}
			r.T = T
			return r
		case token.AND:
			return t.evAddrOf(x)
		case token.ARROW:
			ch := t.ev(x.X)
			_ = ch
			t.detViolation("recv", x.Pos(), "channel receive")
			t.chanToken(t.typeOf(x.X), 1)
			ct := t.typeOf(x.X).Underlying().(*types.Chan)
			rv := t.havocTerm("recv", ct.Elem())
			t.noteCtxDone(x.X)
			if t.u.Contract != nil && t.u.Contract.Flags["chan_nonnil"] == "true" {
				if _, isPtr := ct.Elem().Underlying().(*types.Pointer); isPtr {
					t.assume(neq(rv, intLit(0)))
					t.V.note("flag chan_nonnil on " + t.u.Key + ": pointers received from channels are assumed non-nil")
				}
			}
			return rv
		}
	case *ast.StarExpr:
		p := t.ev(x.X)
		t.safety(neq(p, intLit(0)), "safety/nil", x.Pos(), "nil pointer dereference")
		return t.loadPtr(p, x.Pos())
	case *ast.BinaryExpr:
		return t.evBinary(x, T)
	case *ast.SelectorExpr:
		return t.evSelector(x)
	case *ast.IndexExpr:
		return t.evIndex(x)
	case *ast.SliceExpr:
		return t.evSliceExpr(x)
	case *ast.CallExpr:
		rs := t.evCall(x)
		if len(rs) == 1 {
			return rs[0]
		}
		if len(rs) == 0 {
			return Term{S: "0", Sort: SInt}
		}
		t.errorf(x.Pos(), "multi-value call in single-value context")
		return rs[0]
	case *ast.CompositeLit:
		return t.evCompositeLit(x, T)
	case *ast.TypeAssertExpr:
		v := t.ev(x.X)
		to := t.typeOf(x.Type)
		t.safety(t.hasDynType(v, to), "safety/assert", x.Pos(), "type assertion may fail")
		if isInterface(to) {
			v.T = to
			return v
		}
		return t.unbox(v, to)
	}
	t.errorf(e.Pos(), "unsupported expression %T", e)
	if T != nil {
		return t.havocTerm("unsup", T)
	}
	return Term{S: "0", Sort: SInt}
}

func (t *tr) litIndex(l *ast.FuncLit) int {
	root := t.u
	for root.Outer != nil {
		root = root.Outer
	}
	for i, x := range root.Lits {
		if x == l {
			return i + 1
		}
	}
	return 0
}

func (t *tr) evIdent(x *ast.Ident) Term {
	o := t.info.ObjectOf(x)
	switch ob := o.(type) {
	case *types.Nil:
		T := t.typeOf(x)
		if T != nil {
			if _, ok := T.Underlying().(*types.Slice); ok {
				return t.V.W.zero(T)
			}
		}
		return Term{S: "0", Sort: SInt, T: T}
	case *types.Var:
		if ob.Pkg() != nil && ob.Parent() == ob.Pkg().Scope() {
			g := t.globalVar(ob)
			r := t.read(g)
			t.assume(t.typeInv(r, ob.Type(), t.cur.Env))
			if t.detOn() && !t.detAllowed(shortPkg(ob.Pkg().Path())+"."+ob.Name()) {
				t.detViolation("global/"+shortPkg(ob.Pkg().Path())+"."+ob.Name(), x.Pos(), "read of package-level variable "+ob.Name())
			}
			return r
		}
		if t.escaped[ob] {
			cell := t.escapedCell(ob)
			return t.loadPtr(cell, x.Pos())
		}
		v := t.localVar(ob)
		return t.read(v)
	case *types.Func:
		fv := t.funcValue(ob)
		t.assume(neq(fv, intLit(0))) // a declared function is never nil
		return fv
	case *types.Const:
		if r, ok := t.constTerm(ob.Val(), ob.Type()); ok {
			return r
		}
	}
	t.errorf(x.Pos(), "unsupported identifier %s", x.Name)
	return Term{S: "0", Sort: SInt}
}

func (t *tr) loadPtr(p Term, pos token.Pos) Term {
	pt, ok := p.T.Underlying().(*types.Pointer)
	if !ok {
		t.errorf(pos, "dereference of non-pointer")
		return Term{S: "0", Sort: SInt}
	}
	if st, ok := pt.Elem().Underlying().(*types.Struct); ok {
		return t.loadStruct(t.cur.Env, p, pt.Elem(), st)
	}
	r := sel(t.read(t.ptrHeap(pt.Elem())), p)
	r.T = pt.Elem()
	t.assume(t.typeInv(r, r.T, t.cur.Env))
	return r
}

// withGuard evaluates f under an additional expression-level guard.
func (t *tr) withGuard(g Term, f func() Term) Term {
	t.guard = append(t.guard, g)
	r := f()
	t.guard = t.guard[:len(t.guard)-1]
	return r
}

func (t *tr) evBinary(x *ast.BinaryExpr, T types.Type) Term {
	switch x.Op {
	case token.LAND:
		a := t.ev(x.X)
		b := t.withGuard(a, func() Term { return t.ev(x.Y) })
		return and(a, b)
	case token.LOR:
		a := t.ev(x.X)
		b := t.withGuard(not(a), func() Term { return t.ev(x.Y) })
		return or(a, b)
	}
	a := t.ev(x.X)
	b := t.ev(x.Y)
	ta, tb := t.typeOf(x.X), t.typeOf(x.Y)
	// comparisons between interface and concrete values box the concrete one
	if x.Op == token.EQL || x.Op == token.NEQ {
		if ta != nil && tb != nil {
			if isInterface(ta) && !isInterface(tb) {
				b = t.box(b, tb, ta)
			} else if isInterface(tb) && !isInterface(ta) {
				a = t.box(a, ta, tb)
			}
		}
		if a.Sort == SSlice && b.Sort == SSlice {
			// only comparison with nil is legal Go
			return t.binop(x.Op, slArr(a), slArr(b), nil, x.Pos(), true)
		}
	}
	rt := T
	if x.Op == token.SHL || x.Op == token.SHR {
		rt = T
	}
	return t.binop(x.Op, a, b, rt, x.Pos(), true)
}

func (t *tr) evSelector(x *ast.SelectorExpr) Term {
	if sel, ok := t.info.Selections[x]; ok {
		switch sel.Kind() {
		case types.FieldVal:
			base := t.ev(x.X)
			return t.loadPath(base, sel.Index(), x.Pos())
		case types.MethodVal:
			// method value: an opaque function value determined by the method and its receiver
			base := t.ev(x.X)
			name := "mval$" + funcKey(sel.Obj().(*types.Func))
			t.V.W.declFun(name, []string{base.Sort}, SInt)
			r := app(sym(name), SInt, base)
			r.T = t.typeOf(x)
			return r
		}
	}
	// qualified identifier
	return t.evIdent(x.Sel)
}

// loadPath follows a field index path (with implicit dereferences), asserting non-nil pointers.
func (t *tr) loadPath(base Term, path []int, pos token.Pos) Term {
	cur := base
	for _, idx := range path {
		if _, _, isPtr := derefStruct(cur.T); isPtr {
			t.safety(neq(cur, intLit(0)), "safety/nil", pos, "nil pointer dereference in field access")
		}
		r, ok := t.loadFieldIdx(t.cur.Env, cur, idx)
		if !ok {
			t.errorf(pos, "cannot select field")
			return Term{S: "0", Sort: SInt}
		}
		if _, _, isPtr := derefStruct(cur.T); isPtr {
			t.assume(t.typeInv(r, r.T, t.cur.Env))
		}
		cur = r
	}
	return cur
}

func (t *tr) evIndex(x *ast.IndexExpr) Term {
	XT := t.typeOf(x.X)
	if XT == nil {
		t.errorf(x.Pos(), "untyped index base")
		return Term{S: "0", Sort: SInt}
	}
	if _, ok := XT.Underlying().(*types.Signature); ok {
		return t.ev(x.X) // generic instantiation
	}
	a := t.ev(x.X)
	i := t.ev(x.Index)
	switch u := XT.Underlying().(type) {
	case *types.Map:
		if isInterface(u.Key()) {
			if it := t.typeOf(x.Index); it != nil && !isInterface(it) {
				i = t.box(i, it, u.Key())
			}
		}
		dom, val, _ := t.mapHeaps(u)
		present := sel(sel(t.read(dom), a), i)
		v := sel(sel(t.read(val), a), i)
		r := ite(and(neq(a, intLit(0)), present), v, t.V.W.zero(u.Elem()))
		r.T = u.Elem()
		t.assume(t.typeInv(r, r.T, t.cur.Env))
		return r
	case *types.Pointer:
		t.safety(neq(a, intLit(0)), "safety/nil", x.Pos(), "nil array pointer")
	}
	n, ok := t.lenOf(t.cur.Env, a)
	if !ok {
		t.errorf(x.Pos(), "cannot index %v", XT)
		return Term{S: "0", Sort: SInt}
	}
	t.safety(and(le(intLit(0), i), lt(i, n)), "safety/index", x.Pos(), "index out of range")
	r, ok := t.elemAt(t.cur.Env, a, i)
	if !ok {
		t.errorf(x.Pos(), "cannot index %v", XT)
		return Term{S: "0", Sort: SInt}
	}
	t.assume(t.typeInv(r, r.T, t.cur.Env))
	return r
}

func (t *tr) evSliceExpr(x *ast.SliceExpr) Term {
	XT := t.typeOf(x.X)
	a := t.ev(x.X)
	var lo, hi, mx Term
	if x.Low != nil {
		lo = t.ev(x.Low)
	} else {
		lo = intLit(0)
	}
	switch u := XT.Underlying().(type) {
	case *types.Slice:
		if x.High != nil {
			hi = t.ev(x.High)
		} else {
			hi = slLen(a)
		}
		if x.Max != nil {
			mx = t.ev(x.Max)
			t.safety(and(le(intLit(0), lo), le(lo, hi), le(hi, mx), le(mx, slCap(a))), "safety/slice", x.Pos(), "slice bounds out of range")
			r := mkSlice(slArr(a), add(slOff(a), lo), sub(hi, lo), sub(mx, lo))
			r.T = XT
			return r
		}
		t.safety(and(le(intLit(0), lo), le(lo, hi), le(hi, slCap(a))), "safety/slice", x.Pos(), "slice bounds out of range")
		r := mkSlice(slArr(a), add(slOff(a), lo), sub(hi, lo), sub(slCap(a), lo))
		r.T = XT
		return r
	case *types.Basic:
		n := app("strlen", SInt, a)
		if x.High != nil {
			hi = t.ev(x.High)
		} else {
			hi = n
		}
		t.safety(and(le(intLit(0), lo), le(lo, hi), le(hi, n)), "safety/slice", x.Pos(), "string slice bounds out of range")
		t.V.W.declFun("substr", []string{SStr, SInt, SInt}, SStr)
		t.V.W.addAxiom("substr-len", "(forall ((s Str) (a Int) (b Int)) (! (=> (and (<= 0 a) (<= a b) (<= b (strlen s))) (= (strlen (substr s a b)) (- b a))) :pattern ((substr s a b))))")
		t.V.W.addAxiom("substr-full", "(forall ((s Str)) (! (= (substr s 0 (strlen s)) s) :pattern ((substr s 0 (strlen s)))))")
		r := app("substr", SStr, a, lo, hi)
		r.T = XT
		return r
	case *types.Array:
		// slicing an addressable array: the slice aliases the array. We over-approximate: the slice refers to a
		// fresh backing array with unknown contents, and the array variable's contents become unknown as well.
		n := intLit(u.Len())
		if x.High != nil {
			hi = t.ev(x.High)
		} else {
			hi = n
		}
		t.safety(and(le(intLit(0), lo), le(lo, hi), le(hi, n)), "safety/slice", x.Pos(), "array slice bounds out of range")
		arr := t.alloc()
		if id, ok := ast.Unparen(x.X).(*ast.Ident); ok {
			if o, ok := t.info.ObjectOf(id).(*types.Var); ok {
				if lv, ok := t.vars[o]; ok {
					t.fresh(lv)
				}
			}
		}
		t.V.note("slice of a local array: contents over-approximated as unknown")
		r := mkSlice(arr, lo, sub(hi, lo), sub(n, lo))
		r.T = t.typeOf(x)
		return r
	case *types.Pointer:
		// pointer to array: p[lo:hi] — arrays behind pointers are modelled as one heap cell; produce an opaque slice
		_ = u
	}
	t.errorf(x.Pos(), "unsupported slice expression on %v", XT)
	return t.havocTerm("slice", t.typeOf(x))
}

// alloc returns a fresh non-nil reference.
func (t *tr) alloc() Term {
	top := t.read(t.allocTop)
	nt := t.fresh(t.allocTop)
	t.emit(PStmt{F: implies(t.guardTerm(), eq(nt, add(top, intLit(1)))).S})
	if len(t.guard) > 0 {
		t.emit(PStmt{F: ge(nt, top).S})
	}
	t.assume(gt(nt, intLit(0)))
	return nt
}

func (t *tr) evAddrOf(x *ast.UnaryExpr) Term {
	T := t.typeOf(x)
	inner := ast.Unparen(x.X)
	if cl, ok := inner.(*ast.CompositeLit); ok {
		v := t.evCompositeLit(cl, t.typeOf(cl))
		p := t.alloc()
		p.T = T
		t.storePtr(p, v, x.Pos())
		return p
	}
	if id, ok := inner.(*ast.Ident); ok {
		if o, ok := t.info.ObjectOf(id).(*types.Var); ok && t.escaped[o] {
			t.V.note("address-taken local in " + t.u.Key + ": modelled as a heap cell; type punning through unsafe casts is not tracked")
			return t.escapedCell(o)
		}
	}
	t.errorf(x.Pos(), "address-of (&%s) outside call arguments is not supported", exprString(inner))
	return t.havocTerm("addr", T)
}

// storePtr writes value v through pointer p (struct values are spread over field heaps).
func (t *tr) storePtr(p Term, v Term, pos token.Pos) {
	pt, ok := p.T.Underlying().(*types.Pointer)
	if !ok {
		t.errorf(pos, "store through non-pointer")
		return
	}
	if st, ok := pt.Elem().Underlying().(*types.Struct); ok {
		ss := t.V.W.structSortOf(pt.Elem(), st)
		vv := v
		vv.T = pt.Elem()
		for i, f := range ss.Fields {
			h := t.fieldHeap(pt.Elem(), st, i)
			fv := app(ss.selName(i), f.Sort, vv)
			t.heapStore(h, p, fv)
		}
		return
	}
	h := t.ptrHeap(pt.Elem())
	t.heapStore(h, p, v)
}

func (t *tr) heapStore(h *Var, idx Term, v Term) {
	if t.cur == nil {
		return
	}
	old := t.read(h)
	if arrayValSort(h.Sort) != v.Sort {
		t.errorf(token.NoPos, "internal: heap store sort mismatch %s <- %s:%s", h.Name, v.S, v.Sort)
		return
	}
	nv := store(old, idx, v)
	if len(t.guard) > 0 {
		nv = ite(t.guardTerm(), nv, old)
	}
	t.assign(h, nv)
}

func (t *tr) evCompositeLit(x *ast.CompositeLit, T types.Type) Term {
	W := t.V.W
	switch u := T.Underlying().(type) {
	case *types.Struct:
		ss := W.structSortOf(T, u)
		args := make([]Term, len(ss.Fields))
		for i, f := range ss.Fields {
			args[i] = W.zeroOfSort(f.Sort, f.T)
		}
		for i, el := range x.Elts {
			if kv, ok := el.(*ast.KeyValueExpr); ok {
				name := kv.Key.(*ast.Ident).Name
				idx := ss.fieldIndex(name)
				args[idx] = t.evTo(kv.Value, ss.Fields[idx].T)
			} else {
				args[i] = t.evTo(el, ss.Fields[i].T)
			}
		}
		var r Term
		if len(args) == 0 {
			r = Term{S: ss.ctor(), Sort: ss.Name}
		} else {
			r = app(ss.ctor(), ss.Name, args...)
		}
		r.T = T
		return r
	case *types.Slice:
		es := W.sortOf(u.Elem())
		eT := types.Type(u.Elem())
		n := int64(0)
		idx := int64(0)
		type el struct {
			i int64
			v Term
		}
		var els []el
		for _, e := range x.Elts {
			if kv, ok := e.(*ast.KeyValueExpr); ok {
				if tv, ok := t.info.Types[kv.Key]; ok && tv.Value != nil {
					k, _ := constInt(mustConst(t, tv))
					idx = k.Int64()
				}
				els = append(els, el{idx, t.evTo(kv.Value, u.Elem())})
			} else {
				els = append(els, el{idx, t.evTo(e, u.Elem())})
			}
			idx++
			if idx > n {
				n = idx
			}
		}
		arr := t.alloc()
		h := t.elemHeapT(eT, es)
		contents := Term{S: fmt.Sprintf("((as const %s) %s)", arrSort(SInt, es), W.zeroOfSort(es, u.Elem()).S), Sort: arrSort(SInt, es)}
		for _, e := range els {
			contents = store(contents, intLit(e.i), e.v)
		}
		t.heapStore(h, arr, contents)
		r := mkSlice(arr, intLit(0), intLit(n), intLit(n))
		r.T = T
		return r
	case *types.Array:
		es := W.sortOf(u.Elem())
		contents := Term{S: fmt.Sprintf("((as const %s) %s)", arrSort(SInt, es), W.zeroOfSort(es, u.Elem()).S), Sort: arrSort(SInt, es)}
		idx := int64(0)
		for _, e := range x.Elts {
			if kv, ok := e.(*ast.KeyValueExpr); ok {
				if tv, ok := t.info.Types[kv.Key]; ok && tv.Value != nil {
					k, _ := constInt(mustConst(t, tv))
					idx = k.Int64()
				}
				contents = store(contents, intLit(idx), t.evTo(kv.Value, u.Elem()))
			} else {
				contents = store(contents, intLit(idx), t.evTo(e, u.Elem()))
			}
			idx++
		}
		contents.T = T
		return contents
	case *types.Map:
		m := t.alloc()
		m.T = T
		dom, val, ln := t.mapHeaps(u)
		ks := W.sortOf(u.Key())
		emptyDom := Term{S: fmt.Sprintf("((as const %s) false)", arrSort(ks, SBool)), Sort: arrSort(ks, SBool)}
		t.heapStore(dom, m, emptyDom)
		t.heapStore(ln, m, intLit(0))
		for _, e := range x.Elts {
			kv := e.(*ast.KeyValueExpr)
			k := t.evTo(kv.Key, u.Key())
			v := t.evTo(kv.Value, u.Elem())
			t.mapStore(u, m, k, v)
		}
		_ = val
		return m
	}
	t.errorf(x.Pos(), "unsupported composite literal of type %v", T)
	return t.havocTerm("lit", T)
}

func mustConst(t *tr, tv types.TypeAndValue) Term {
	r, _ := t.constTerm(tv.Value, tv.Type)
	return r
}

func (t *tr) mapStore(u *types.Map, m, k, v Term) {
	dom, val, ln := t.mapHeaps(u)
	d := sel(t.read(dom), m)
	present := sel(d, k)
	l := sel(t.read(ln), m)
	t.heapStore(ln, m, ite(present, l, add(l, intLit(1))))
	t.heapStore(dom, m, store(d, k, tTrue))
	t.heapStore(val, m, store(sel(t.read(val), m), k, v))
}

// evTo evaluates e and converts it (implicitly) to target type T, boxing into interfaces as needed.
func (t *tr) evTo(e ast.Expr, T types.Type) Term {
	v := t.ev(e)
	return t.coerceTo(v, t.typeOf(e), T, e.Pos())
}

func (t *tr) coerceTo(v Term, from, T types.Type, pos token.Pos) Term {
	if T == nil {
		return v
	}
	if from != nil && isInterface(T) && !isInterface(from) {
		if b, ok := from.Underlying().(*types.Basic); ok && b.Kind() == types.UntypedNil {
			return Term{S: "0", Sort: SInt, T: T}
		}
		return t.box(v, from, T)
	}
	want := t.V.W.sortOf(T)
	if v.Sort != want {
		if v.S == "0" && want == SSlice {
			return t.V.W.zero(T)
		}
		t.errorf(pos, "internal: value %s of sort %s where %s (%v) expected", v.S, v.Sort, want, T)
		return t.V.W.zero(T)
	}
	v.T = T
	return v
}

func exprString(e ast.Expr) string {
	return types.ExprString(e)
}

// noteCtxDone: a completed receive from ctx.Done() means ctx is done from now on (see trusted/exec.contracts).
func (t *tr) noteCtxDone(ch ast.Expr) {
	call, ok := ast.Unparen(ch).(*ast.CallExpr)
	if !ok {
		return
	}
	se, ok := call.Fun.(*ast.SelectorExpr)
	if !ok || se.Sel.Name != "Done" || len(call.Args) != 0 {
		return
	}
	rt := t.typeOf(se.X)
	if rt == nil || typeKey(rt) != "context.Context" {
		return
	}
	d, ok := t.V.ghostVars["ctxClock"]
	sf, ok2 := t.V.CS.SpecFuncs["ctxDoneAt"]
	if !ok || !ok2 || t.cur == nil {
		return
	}
	_ = sf
	clock := t.ghostVar(d)
	ctx := t.ev(se.X)
	t.assign(clock, add(t.read(clock), intLit(1)))
	t.V.W.declFun("sf$ctxDoneAt", []string{SInt, SInt}, SBool)
	t.assume(app("sf$ctxDoneAt", SBool, ctx, t.read(clock)))
}

// escapedCell returns the reference of the heap cell holding an address-taken local (allocated on first use).
func (t *tr) escapedCell(o *types.Var) Term {
	cv := t.newVar("cell$"+o.Name(), SInt, types.NewPointer(o.Type()), false)
	if _, ok := t.cur.Env[cv]; !ok && t.cur != nil {
		// first use on this path: allocate and zero-initialise
		p := t.alloc()
		p.T = types.NewPointer(o.Type())
		t.assign(cv, p)
		t.storePtr(p, t.V.W.zero(o.Type()), token.NoPos)
	}
	r := t.read(cv)
	r.T = types.NewPointer(o.Type())
	return r
}
