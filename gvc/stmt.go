package main

import (
	"fmt"
	"go/ast"
	"go/token"
	"go/types"
)

func (t *tr) stmts(list []ast.Stmt) {
	for _, s := range list {
		if t.cur == nil {
			// unreachable code after return/panic; labelled statements could be targets of goto (unsupported)
			return
		}
		t.stmt(s)
	}
}

func (t *tr) stmt(s ast.Stmt) {
	switch x := s.(type) {
	case *ast.BlockStmt:
		t.stmts(x.List)
	case *ast.ExprStmt:
		if call, ok := ast.Unparen(x.X).(*ast.CallExpr); ok {
			t.evCall(call)
		} else {
			t.ev(x.X)
		}
	case *ast.AssignStmt:
		t.assignStmt(x)
	case *ast.IncDecStmt:
		one := &ast.BasicLit{Kind: token.INT, Value: "1"}
		_ = one
		v := t.ev(x.X)
		T := t.typeOf(x.X)
		op := token.ADD
		if x.Tok == token.DEC {
			op = token.SUB
		}
		r := t.binop(op, v, intLit(1), T, x.Pos(), true)
		t.assignTo(x.X, r)
	case *ast.DeclStmt:
		gd, ok := x.Decl.(*ast.GenDecl)
		if !ok {
			return
		}
		for _, sp := range gd.Specs {
			vs, ok := sp.(*ast.ValueSpec)
			if !ok {
				continue
			}
			if len(vs.Values) == 1 && len(vs.Names) > 1 {
				rs := t.evMulti(vs.Values[0], len(vs.Names))
				for i, n := range vs.Names {
					t.defineIdent(n, rs[i])
				}
				continue
			}
			for i, n := range vs.Names {
				if n.Name == "_" {
					if i < len(vs.Values) {
						t.ev(vs.Values[i])
					}
					continue
				}
				o := t.info.Defs[n]
				var val Term
				if i < len(vs.Values) {
					val = t.evTo(vs.Values[i], o.Type())
				} else {
					val = t.V.W.zero(o.Type())
				}
				if lv, ok := o.(*types.Var); ok && t.escaped[lv] {
					t.storePtr(t.escapedCell(lv), val, n.Pos())
				} else {
					t.assign(t.localVar(o), val)
				}
			}
		}
	case *ast.ReturnStmt:
		t.returnStmt(x)
	case *ast.IfStmt:
		if x.Init != nil {
			t.stmt(x.Init)
		}
		c := t.ev(x.Cond)
		bt, bf := t.branch(c)
		t.cur = bt
		t.stmt(x.Body)
		e1 := t.cur
		t.cur = bf
		if x.Else != nil {
			t.stmt(x.Else)
		}
		e2 := t.cur
		t.cur = t.join(e1, e2)
	case *ast.ForStmt:
		t.forStmt(x)
	case *ast.RangeStmt:
		t.rangeStmt(x)
	case *ast.SwitchStmt:
		t.switchStmt(x)
	case *ast.TypeSwitchStmt:
		t.typeSwitchStmt(x)
	case *ast.BranchStmt:
		t.branchStmt(x)
	case *ast.LabeledStmt:
		t.pendingLabel = x.Label.Name
		t.stmt(x.Stmt)
		t.pendingLabel = ""
	case *ast.DeferStmt:
		t.deferStmt(x)
	case *ast.GoStmt:
		// arguments are evaluated now; the spawned function has no effect on this goroutine's state (assumption)
		// If the spawned callee has a contract with preconditions, they are obligations at the hand-over point
		// (`go executor.Run(task)`: the task must be WAITING when it is handed over); nothing else of the
		// contract is applied.
		if ct := t.resolveCall(x.Call); ct != nil && ct.sig != nil && ct.lit == nil {
			if con := t.V.CS.Funcs[ct.key]; con != nil && len(con.clauses("requires")) > 0 {
				t.spawnOnly = true
				t.evCall(x.Call)
				t.spawnOnly = false
				t.detViolation("go", x.Pos(), "go statement")
				t.V.note("go statement: spawned goroutine assumed not to interfere (" + t.u.Key + "); preconditions of " + ct.key + " checked at the spawn")
				break
			}
		}
		for _, a := range x.Call.Args {
			t.ev(a)
		}
		t.detViolation("go", x.Pos(), "go statement")
		t.V.note("go statement: spawned goroutine assumed not to interfere (" + t.u.Key + ")")
	case *ast.SendStmt:
		t.ev(x.Chan)
		t.ev(x.Value)
		t.chanToken(t.typeOf(x.Chan), -1)
	case *ast.SelectStmt:
		t.detViolation("select", x.Pos(), "select statement")
		t.selectStmt(x)
	case *ast.EmptyStmt:
	default:
		t.errorf(s.Pos(), "unsupported statement %T", s)
	}
}

func (t *tr) defineIdent(n *ast.Ident, v Term) {
	if n.Name == "_" {
		return
	}
	o := t.info.ObjectOf(n)
	if o == nil {
		t.errorf(n.Pos(), "no object for %s", n.Name)
		return
	}
	lv, ok := o.(*types.Var)
	if !ok {
		t.errorf(n.Pos(), "cannot assign to %s", n.Name)
		return
	}
	if lv.Pkg() != nil && lv.Parent() == lv.Pkg().Scope() {
		v = t.coerceTo(v, v.T, lv.Type(), n.Pos())
		t.assign(t.globalVar(lv), v)
		return
	}
	v = t.coerceTo(v, v.T, lv.Type(), n.Pos())
	if t.escaped[lv] {
		t.storePtr(t.escapedCell(lv), v, n.Pos())
		return
	}
	t.assign(t.localVar(lv), v)
}

// evMulti evaluates an expression yielding n values (call, map index, type assertion, receive).
func (t *tr) evMulti(e ast.Expr, n int) []Term {
	e = ast.Unparen(e)
	out := make([]Term, n)
	for i := range out {
		out[i] = Term{S: "0", Sort: SInt}
	}
	if t.cur == nil {
		if tup, ok := t.typeOf(e).(*types.Tuple); ok {
			for i := 0; i < n && i < tup.Len(); i++ {
				out[i] = t.V.W.zero(tup.At(i).Type())
			}
		}
		return out
	}
	switch x := e.(type) {
	case *ast.CallExpr:
		rs := t.evCall(x)
		if len(rs) != n {
			t.errorf(e.Pos(), "call yields %d values, want %d", len(rs), n)
			return out
		}
		return rs
	case *ast.IndexExpr:
		if m, ok := t.typeOf(x.X).Underlying().(*types.Map); ok && n == 2 {
			a := t.ev(x.X)
			k := t.evTo(x.Index, m.Key())
			dom, val, _ := t.mapHeaps(m)
			present := and(neq(a, intLit(0)), sel(sel(t.read(dom), a), k))
			v := ite(present, sel(sel(t.read(val), a), k), t.V.W.zero(m.Elem()))
			v.T = m.Elem()
			t.assume(t.typeInv(v, v.T, t.cur.Env))
			present.T = types.Typ[types.Bool]
			return []Term{v, present}
		}
	case *ast.TypeAssertExpr:
		if n == 2 {
			v := t.ev(x.X)
			to := t.typeOf(x.Type)
			ok := t.hasDynType(v, to)
			var r Term
			if isInterface(to) {
				r = ite(ok, v, intLit(0))
				r.T = to
			} else {
				r = ite(ok, t.unbox(v, to), t.V.W.zero(to))
				r.T = to
			}
			ok.T = types.Typ[types.Bool]
			return []Term{r, ok}
		}
	case *ast.UnaryExpr:
		if x.Op == token.ARROW && n == 2 {
			t.ev(x.X)
			t.chanToken(t.typeOf(x.X), 1)
			ct := t.typeOf(x.X).Underlying().(*types.Chan)
			return []Term{t.havocTerm("recv", ct.Elem()), t.havocTerm("recvok", types.Typ[types.Bool])}
		}
	}
	t.errorf(e.Pos(), "unsupported multi-value expression %T", e)
	return out
}

func (t *tr) assignStmt(x *ast.AssignStmt) {
	if x.Tok != token.ASSIGN && x.Tok != token.DEFINE {
		// op-assign
		ops := map[token.Token]token.Token{token.ADD_ASSIGN: token.ADD, token.SUB_ASSIGN: token.SUB, token.MUL_ASSIGN: token.MUL, token.QUO_ASSIGN: token.QUO, token.REM_ASSIGN: token.REM, token.AND_ASSIGN: token.AND, token.OR_ASSIGN: token.OR, token.XOR_ASSIGN: token.XOR, token.SHL_ASSIGN: token.SHL, token.SHR_ASSIGN: token.SHR, token.AND_NOT_ASSIGN: token.AND_NOT}
		op := ops[x.Tok]
		l := t.ev(x.Lhs[0])
		r := t.ev(x.Rhs[0])
		T := t.typeOf(x.Lhs[0])
		t.assignTo(x.Lhs[0], t.binop(op, l, r, T, x.Pos(), true))
		return
	}
	var vals []Term
	if len(x.Rhs) == 1 && len(x.Lhs) > 1 {
		vals = t.evMulti(x.Rhs[0], len(x.Lhs))
	} else {
		for i, r := range x.Rhs {
			lt := t.lhsType(x.Lhs[i])
			if lt != nil {
				vals = append(vals, t.evTo(r, lt))
			} else {
				vals = append(vals, t.ev(r))
			}
		}
	}
	if t.cur == nil {
		return
	}
	for i, l := range x.Lhs {
		if id, ok := l.(*ast.Ident); ok {
			if id.Name == "_" {
				continue
			}
			if x.Tok == token.DEFINE {
				t.defineIdent(id, vals[i])
				continue
			}
		}
		v := vals[i]
		if lt := t.lhsType(l); lt != nil {
			v = t.coerceTo(v, v.T, lt, l.Pos())
		}
		t.assignTo(l, v)
	}
}

func (t *tr) lhsType(l ast.Expr) types.Type {
	if id, ok := l.(*ast.Ident); ok {
		if id.Name == "_" {
			return nil
		}
		if o := t.info.ObjectOf(id); o != nil {
			return o.Type()
		}
		return nil
	}
	return t.typeOf(l)
}

// assignTo stores v into the location denoted by l.
func (t *tr) assignTo(l ast.Expr, v Term) {
	if t.cur == nil {
		return
	}
	l = ast.Unparen(l)
	switch x := l.(type) {
	case *ast.Ident:
		t.defineIdent(x, v)
	case *ast.StarExpr:
		p := t.ev(x.X)
		t.safety(neq(p, intLit(0)), "safety/nil", x.Pos(), "nil pointer dereference in store")
		t.storePtr(p, v, x.Pos())
	case *ast.SelectorExpr:
		sl, ok := t.info.Selections[x]
		if !ok {
			// qualified global
			t.defineIdent(x.Sel, v)
			return
		}
		t.storePath(x.X, sl.Index(), v, x.Pos())
	case *ast.IndexExpr:
		XT := t.typeOf(x.X)
		switch u := XT.Underlying().(type) {
		case *types.Slice:
			a := t.ev(x.X)
			i := t.ev(x.Index)
			t.safety(and(le(intLit(0), i), lt(i, slLen(a))), "safety/index", x.Pos(), "index out of range in store")
			es := t.V.W.sortOf(u.Elem())
			eT := types.Type(u.Elem())
			h := t.elemHeapT(eT, es)
			inner := sel(t.read(h), slArr(a))
			t.heapStore(h, slArr(a), store(inner, add(slOff(a), i), v))
		case *types.Map:
			m := t.ev(x.X)
			k := t.evTo(x.Index, u.Key())
			t.safety(neq(m, intLit(0)), "safety/nilmap", x.Pos(), "assignment to entry in nil map")
			t.mapStore(u, m, k, v)
		case *types.Array:
			a := t.ev(x.X)
			i := t.ev(x.Index)
			t.safety(and(le(intLit(0), i), lt(i, intLit(u.Len()))), "safety/index", x.Pos(), "array index out of range in store")
			na := store(a, i, v)
			na.T = XT
			t.assignTo(x.X, na)
		default:
			t.errorf(x.Pos(), "unsupported indexed store into %v", XT)
		}
	default:
		t.errorf(l.Pos(), "unsupported assignment target %T", l)
	}
}

// storePath stores v into base.path (fields), where base is an expression.
func (t *tr) storePath(baseExpr ast.Expr, path []int, v Term, pos token.Pos) {
	base := t.ev(baseExpr)
	// walk to the last pointer on the path; everything after is value-nested
	type step struct {
		holder Term // value or pointer holding the field
		idx    int
	}
	cur := base
	var steps []step
	for _, idx := range path {
		steps = append(steps, step{cur, idx})
		if _, _, isPtr := derefStruct(cur.T); isPtr {
			t.safety(neq(cur, intLit(0)), "safety/nil", pos, "nil pointer dereference in field store")
		}
		r, ok := t.loadFieldIdx(t.cur.Env, cur, idx)
		if !ok {
			t.errorf(pos, "cannot resolve field store")
			return
		}
		cur = r
	}
	// write back from the innermost
	val := v
	for i := len(steps) - 1; i >= 0; i-- {
		s := steps[i]
		named, st, isPtr := derefStruct(s.holder.T)
		if isPtr {
			h := t.fieldHeap(named, st, s.idx)
			t.heapStore(h, s.holder, val)
			return
		}
		val = t.updateField(s.holder, s.idx, val)
	}
	// the base itself is a struct value: assign it back
	t.assignTo(baseExpr, val)
}

func (t *tr) returnStmt(x *ast.ReturnStmt) {
	if t.cur == nil {
		return
	}
	sigRes := t.u.Sig.Results()
	if len(x.Results) == 0 {
		// named results keep their current values
	} else if len(x.Results) == 1 && sigRes.Len() > 1 {
		rs := t.evMulti(x.Results[0], sigRes.Len())
		for i, r := range rs {
			r = t.coerceTo(r, r.T, sigRes.At(i).Type(), x.Pos())
			t.assign(t.results[i], r)
		}
	} else {
		var vals []Term
		for i, r := range x.Results {
			vals = append(vals, t.evTo(r, sigRes.At(i).Type()))
		}
		for i, v := range vals {
			t.assign(t.results[i], v)
		}
	}
	if t.cur != nil {
		t.returns = append(t.returns, t.cur)
	}
	t.cur = nil
}

func (t *tr) findLoop(label string, forContinue bool) *loopCtx {
	for i := len(t.loops) - 1; i >= 0; i-- {
		l := t.loops[i]
		if label != "" {
			if l.label == label {
				return l
			}
			continue
		}
		if forContinue && l.isSwitch {
			continue
		}
		return l
	}
	return nil
}

func (t *tr) branchStmt(x *ast.BranchStmt) {
	label := ""
	if x.Label != nil {
		label = x.Label.Name
	}
	switch x.Tok {
	case token.BREAK:
		l := t.findLoop(label, false)
		if l == nil {
			t.errorf(x.Pos(), "break outside loop")
			return
		}
		l.breaks = append(l.breaks, t.cur)
		t.cur = nil
	case token.CONTINUE:
		l := t.findLoop(label, true)
		if l == nil {
			t.errorf(x.Pos(), "continue outside loop")
			return
		}
		l.continues = append(l.continues, t.cur)
		t.cur = nil
	default:
		t.errorf(x.Pos(), "unsupported branch statement %s", x.Tok)
	}
}

// ---- loops ----

func (t *tr) loopInvariants(k int) []*Clause {
	var r []*Clause
	if t.u.Contract == nil {
		return nil
	}
	for _, c := range t.u.Contract.Clauses {
		if c.Kind == "invariant" && c.Loop == k {
			r = append(r, c)
		}
	}
	return r
}

// modifiedIn runs f as a dry run and returns the variables that received new versions.
func (t *tr) modifiedIn(f func()) []*Var {
	s := t.snap()
	t.dry++
	startBlocks := len(t.blocks)
	base := t.cur
	baseEnv := base.Env.clone()
	f()
	mod := map[*Var]bool{}
	check := func(b *Block) {
		for v, n := range b.Env {
			if v0, ok := baseEnv[v]; (!ok && n != 0) || (ok && v0 != n) {
				mod[v] = true
			}
		}
	}
	// Blocks that end in a return or a panic are not on any path to the back edge: what they assign (the
	// result variables of "return x, y" in particular) is not live at the loop head.
	terminal := map[*Block]bool{}
	for _, b := range t.returns[s.returns:] {
		terminal[b] = true
	}
	for _, b := range t.panics[s.panics:] {
		terminal[b] = true
	}
	if !terminal[base] {
		check(base)
	}
	for _, b := range t.blocks[startBlocks:] {
		if !terminal[b] {
			check(b)
		}
	}
	t.dry--
	newVars := map[*Var]bool{}
	for _, v := range t.allVars[s.nvars:] {
		newVars[v] = true
	}
	t.restore(s)
	var out []*Var
	for _, v := range t.allVars {
		if mod[v] {
			out = append(out, v)
		}
	}
	// heap variables first created inside the loop body: recreate them so they can be havoc'd
	for v := range mod {
		if newVars[v] && v.Heap {
			nv := t.newVar(v.Name, v.Sort, v.T, true)
			out = append(out, nv)
		}
	}
	return out
}

// loopHead asserts the invariants on entry, havocs the modified variables and assumes the invariants.
// Returns the function that asserts preservation at the back edge.
func (t *tr) loopHead(k int, pos token.Pos, body func(), alias map[string]*Var) func() {
	invs := t.loopInvariants(k)
	entryOld := t.root.Env
	mkCtx := func() *specCtx {
		sc := t.unitSpecCtx(t.cur.Env)
		sc.pos = pos
		sc.loop = k
		for n, av := range alias {
			sc.vars[n] = t.readIn(t.cur.Env, av)
			if sc.bound == nil {
				sc.bound = map[string]bool{}
			}
			sc.bound[n] = true
		}
		_ = entryOld
		return sc
	}
	t.loopEntry[k] = t.cur.Env.clone()
	for _, c := range invs {
		sc := mkCtx()
		sc.where = c.Where
		t.assert(t.spec(c.Expr, sc), fmt.Sprintf("inv-entry/%d", k), c.Label, pos, "loop invariant holds on entry: "+c.Text)
	}
	mod := t.modifiedIn(body)
	if t.cur == nil {
		return func() {}
	}
	preEnv := t.cur.Env.clone()
	for _, v := range mod {
		nv := t.fresh(v)
		if v.T != nil && !v.Heap {
			t.assume(t.typeInv(nv, v.T, t.cur.Env))
		}
	}
	// allocation only grows
	if t.cur.Env[t.allocTop] != preEnv[t.allocTop] {
		t.assume(ge(t.read(t.allocTop), t.readIn(preEnv, t.allocTop)))
	}
	// frame of the enclosing function is an implicit invariant
	t.assumeFrameInvariant(preEnv, mod)
	for _, c := range invs {
		sc := mkCtx()
		sc.where = c.Where
		t.assume(t.spec(c.Expr, sc))
	}
	t.cover(fmt.Sprintf("loop%d-head", k), pos)
	headEnv := t.cur.Env.clone()
	t.loopHeadEnv[k] = headEnv
	return func() {
		if t.cur == nil {
			return
		}
		// `loop k step [label:] P`: a relation between the state at the head of an iteration (at_head(e)) and the
		// state at its back edge, asserted at the back edge
		if t.u.Contract != nil {
			for _, c := range t.u.Contract.Clauses {
				if c.Kind != "loopstep" || c.Loop != k {
					continue
				}
				sc := mkCtx()
				sc.where = c.Where
				t.loopHeadEnv[k] = headEnv
				t.assert(t.spec(c.Expr, sc), fmt.Sprintf("loop-step/%d", k), c.Label, pos, "holds for every completed iteration: "+c.Text)
			}
		}
		for _, c := range invs {
			sc := mkCtx()
			sc.where = c.Where
			t.assert(t.spec(c.Expr, sc), fmt.Sprintf("inv-keep/%d", k), c.Label, pos, "loop invariant preserved: "+c.Text)
		}
		// the function's frame (w.r.t. the entry state) is an implicit loop invariant: it was assumed at the head
		t.checkFrame(fmt.Sprintf("inv-keep/%d/frame", k))
		t.cur = nil
	}
}

func (t *tr) forStmt(x *ast.ForStmt) {
	if x.Init != nil {
		t.stmt(x.Init)
	}
	if t.cur == nil {
		return
	}
	t.loopOrd++
	k := t.loopOrd
	label := t.pendingLabel
	t.pendingLabel = ""
	var lc *loopCtx
	bodyAll := func() {
		// cond; body; post — used both for the dry run and for the real translation
		lc = &loopCtx{label: label}
		t.loops = append(t.loops, lc)
		var exit *Block
		if x.Cond != nil {
			c := t.ev(x.Cond)
			bt, bf := t.branch(c)
			exit = bf
			t.cur = bt
		}
		savedOrd := t.loopOrd
		_ = savedOrd
		t.stmt(x.Body)
		t.cur = t.join(append([]*Block{t.cur}, lc.continues...)...)
		if x.Post != nil && t.cur != nil {
			t.stmt(x.Post)
		}
		t.loops = t.loops[:len(t.loops)-1]
		lc.continues = nil
		if exit != nil {
			lc.breaks = append(lc.breaks, exit)
		}
	}
	ordBefore := t.loopOrd
	// invariants are resolved in the scope of the loop body (variables of the init statement are visible there)
	keep := t.loopHead(k, x.Body.Lbrace, func() {
		bodyAll()
	}, nil)
	t.loopOrd = ordBefore
	if t.cur == nil {
		return
	}
	bodyAll()
	keep()
	t.cur = t.join(lc.breaks...)
	t.loopExit(k, x.Body.Lbrace, nil)
}

// loopExit asserts the `loop k exit` clauses at the point where control leaves loop k.
func (t *tr) loopExit(k int, pos token.Pos, alias map[string]*Var) {
	if t.cur == nil || t.u.Contract == nil {
		return
	}
	for _, c := range t.u.Contract.Clauses {
		if c.Kind != "loopexit" || c.Loop != k {
			continue
		}
		sc := t.unitSpecCtx(t.cur.Env)
		sc.pos = pos
		sc.loop = k
		for n, av := range alias {
			sc.vars[n] = t.readIn(t.cur.Env, av)
			if sc.bound == nil {
				sc.bound = map[string]bool{}
			}
			sc.bound[n] = true
		}
		sc.where = c.Where
		t.assert(t.spec(c.Expr, sc), fmt.Sprintf("loop-exit/%d", k), c.Label, pos, "holds where the loop is left: "+c.Text)
	}
}

func (t *tr) rangeStmt(x *ast.RangeStmt) {
	XT := t.typeOf(x.X)
	coll := t.ev(x.X)
	if t.cur == nil {
		return
	}
	t.loopOrd++
	k := t.loopOrd
	label := t.pendingLabel
	t.pendingLabel = ""
	t.rangeColl[k] = coll
	// hidden index
	idxVar := t.newVar(fmt.Sprintf("range_idx$%d", k), SInt, types.Typ[types.Int], false)
	var n Term
	kind := ""
	switch u := XT.Underlying().(type) {
	case *types.Slice, *types.Array:
		kind = "seq"
		n, _ = t.lenOf(t.cur.Env, coll)
	case *types.Basic:
		if u.Info()&types.IsInteger != 0 {
			kind = "int"
			n = coll
		} else {
			kind = "string"
		}
	case *types.Map:
		kind = "map"
		t.detViolation("range-map", x.Pos(), "iteration over a map (order is unspecified)")
	case *types.Chan:
		kind = "chan"
		t.detViolation("recv", x.Pos(), "range over a channel")
	case *types.Pointer:
		if _, ok := u.Elem().Underlying().(*types.Array); ok {
			kind = "seq"
			n, _ = t.lenOf(t.cur.Env, coll)
		}
	}
	if kind == "" || kind == "string" {
		t.errorf(x.Pos(), "unsupported range over %v", XT)
		return
	}
	if kind == "seq" || kind == "int" || kind == "map" {
		// for a map, range_idx counts the iterations made so far (the number of keys visited)
		t.assign(idxVar, intLit(0))
	}
	var visited *Var
	var entryDom Term
	if kind == "map" {
		m := XT.Underlying().(*types.Map)
		ks := t.V.W.sortOf(m.Key())
		visited = t.newVar(fmt.Sprintf("range_visited$%d", k), arrSort(ks, SBool), types.NewArray(types.Typ[types.Bool], 0), false)
		t.assign(visited, Term{S: fmt.Sprintf("((as const %s) false)", arrSort(ks, SBool)), Sort: arrSort(ks, SBool)})
		dom, _, _ := t.mapHeaps(m)
		entryDom = sel(t.read(dom), coll)
	}
	var lc *loopCtx
	setKV := func(key, val Term, haveVal bool) {
		if x.Key != nil {
			if id, ok := x.Key.(*ast.Ident); !ok || id.Name != "_" {
				if x.Tok == token.DEFINE {
					t.defineIdent(x.Key.(*ast.Ident), key)
				} else {
					t.assignTo(x.Key, key)
				}
			}
		}
		if x.Value != nil && haveVal {
			if id, ok := x.Value.(*ast.Ident); !ok || id.Name != "_" {
				if x.Tok == token.DEFINE {
					t.defineIdent(x.Value.(*ast.Ident), val)
				} else {
					t.assignTo(x.Value, val)
				}
			}
		}
	}
	bodyAll := func() {
		lc = &loopCtx{label: label}
		t.loops = append(t.loops, lc)
		var exit *Block
		switch kind {
		case "seq", "int":
			i := t.read(idxVar)
			bt, bf := t.branch(lt(i, n))
			exit = bf
			t.cur = bt
			i.T = types.Typ[types.Int]
			if kind == "seq" {
				v, _ := t.elemAt(t.cur.Env, coll, i)
				if x.Value != nil {
					t.assume(t.typeInv(v, v.T, t.cur.Env))
				}
				setKV(i, v, true)
			} else {
				setKV(i, Term{}, false)
			}
		case "map":
			m := XT.Underlying().(*types.Map)
			dom, val, _ := t.mapHeaps(m)
			bs := t.fork(2)
			exit = bs[1]
			// exit: every key of the entry domain that is still present has been visited
			t.cur = exit
			if t.cur != nil {
				t.qcount++
				kq := Term{S: fmt.Sprintf("k$r%d", t.qcount), Sort: t.V.W.sortOf(m.Key())}
				stillThere := and(sel(entryDom, kq), sel(sel(t.read(dom), coll), kq))
				t.assume(or(eq(coll, intLit(0)), forallT([]Term{kq}, implies(stillThere, sel(t.read(visited), kq)))))
				// a completed iteration over a map that was not changed meanwhile made exactly len(map) steps
				_, _, lnH := t.mapHeaps(m)
				sameDom := eq(sel(t.read(dom), coll), entryDom)
				t.assume(implies(and(neq(coll, intLit(0)), sameDom), eq(t.read(idxVar), sel(t.read(lnH), coll))))
				t.assume(implies(eq(coll, intLit(0)), eq(t.read(idxVar), intLit(0))))
			}
			t.cur = bs[0]
			kv := t.havocTerm("rangekey", m.Key())
			t.assume(and(neq(coll, intLit(0)), sel(sel(t.read(dom), coll), kv), not(sel(t.read(visited), kv))))
			t.assign(visited, store(t.read(visited), kv, tTrue))
			v := sel(sel(t.read(val), coll), kv)
			v.T = m.Elem()
			t.assume(t.typeInv(v, v.T, t.cur.Env))
			setKV(kv, v, true)
		case "chan":
			c := XT.Underlying().(*types.Chan)
			bs := t.fork(2)
			exit = bs[1]
			t.cur = bs[0]
			setKV(t.havocTerm("recv", c.Elem()), Term{}, false)
		}
		t.stmt(x.Body)
		t.cur = t.join(append([]*Block{t.cur}, lc.continues...)...)
		if t.cur != nil && (kind == "seq" || kind == "int" || kind == "map") {
			t.assign(idxVar, add(t.read(idxVar), intLit(1)))
		}
		t.loops = t.loops[:len(t.loops)-1]
		lc.continues = nil
		if exit != nil {
			lc.breaks = append(lc.breaks, exit)
		}
	}
	ordBefore := t.loopOrd
	// automatic invariant for the hidden index
	autoInv := func() {
		if kind == "seq" || kind == "int" {
			i := t.read(idxVar)
			t.assume(and(le(intLit(0), i), le(i, n)))
		}
	}
	alias := map[string]*Var{}
	if id, ok := x.Key.(*ast.Ident); ok && id.Name != "_" && x.Tok == token.DEFINE && (kind == "seq" || kind == "int") {
		alias[id.Name] = idxVar
	}
	keep := t.loopHead(k, x.Pos(), bodyAll, alias)
	t.loopOrd = ordBefore
	if t.cur == nil {
		return
	}
	autoInv()
	// the user-visible key variable equals the hidden index at the loop head only inside the body; nothing to assume here
	bodyAll()
	keep()
	t.cur = t.join(lc.breaks...)
	t.loopExit(k, x.Pos(), alias)
}

// ---- switch ----

func (t *tr) switchStmt(x *ast.SwitchStmt) {
	if x.Init != nil {
		t.stmt(x.Init)
	}
	var tag Term
	var tagT types.Type
	if x.Tag != nil {
		tag = t.ev(x.Tag)
		tagT = t.typeOf(x.Tag)
	}
	if t.cur == nil {
		return
	}
	label := t.pendingLabel
	t.pendingLabel = ""
	lc := &loopCtx{label: label, isSwitch: true}
	t.loops = append(t.loops, lc)
	var ends []*Block
	var defaultClause *ast.CaseClause
	var fallInto *Block // block falling through into the next clause body
	clauses := x.Body.List
	for ci, cs := range clauses {
		cc := cs.(*ast.CaseClause)
		if cc.List == nil {
			defaultClause = cc
			if fallInto != nil {
				t.errorf(cc.Pos(), "fallthrough into default not supported")
			}
			continue
		}
		if t.cur == nil && fallInto == nil {
			break
		}
		var match Term = tFalse
		if t.cur != nil {
			var conds []Term
			for _, e := range cc.List {
				if x.Tag != nil {
					v := t.ev(e)
					et := t.typeOf(e)
					a, b := tag, v
					if tagT != nil && et != nil {
						if isInterface(tagT) && !isInterface(et) {
							b = t.box(b, et, tagT)
						} else if isInterface(et) && !isInterface(tagT) {
							a = t.box(a, tagT, et)
						}
					}
					conds = append(conds, t.binop(token.EQL, a, b, nil, e.Pos(), true))
				} else {
					// tagless: conditions are evaluated in order with short-circuit
					g := not(or(conds...))
					c := t.withGuard(g, func() Term { return t.ev(e) })
					conds = append(conds, c)
				}
			}
			match = or(conds...)
		}
		var bt *Block
		if t.cur != nil {
			var bf *Block
			bt, bf = t.branch(match)
			t.cur = bf
		}
		rest := t.cur
		t.cur = t.join(bt, fallInto)
		fallInto = nil
		body := cc.Body
		hasFall := false
		if len(body) > 0 {
			if bs, ok := body[len(body)-1].(*ast.BranchStmt); ok && bs.Tok == token.FALLTHROUGH {
				hasFall = true
				body = body[:len(body)-1]
			}
		}
		t.stmts(body)
		if hasFall {
			fallInto = t.cur
			if ci == len(clauses)-1 {
				t.errorf(cc.Pos(), "fallthrough in last clause")
			}
		} else {
			ends = append(ends, t.cur)
		}
		t.cur = rest
	}
	// default
	if defaultClause != nil {
		if t.cur != nil {
			t.stmts(defaultClause.Body)
		}
		ends = append(ends, t.cur)
	} else {
		ends = append(ends, t.cur)
	}
	if fallInto != nil {
		ends = append(ends, fallInto)
	}
	t.loops = t.loops[:len(t.loops)-1]
	ends = append(ends, lc.breaks...)
	t.cur = t.join(ends...)
}

func (t *tr) typeSwitchStmt(x *ast.TypeSwitchStmt) {
	if x.Init != nil {
		t.stmt(x.Init)
	}
	var subject ast.Expr
	var bindName *ast.Ident
	switch a := x.Assign.(type) {
	case *ast.ExprStmt:
		subject = a.X.(*ast.TypeAssertExpr).X
	case *ast.AssignStmt:
		subject = a.Rhs[0].(*ast.TypeAssertExpr).X
		bindName = a.Lhs[0].(*ast.Ident)
	}
	v := t.ev(subject)
	subjT := t.typeOf(subject)
	if t.cur == nil {
		return
	}
	label := t.pendingLabel
	t.pendingLabel = ""
	lc := &loopCtx{label: label, isSwitch: true}
	t.loops = append(t.loops, lc)
	var ends []*Block
	var defaultClause *ast.CaseClause
	bind := func(cc *ast.CaseClause, val Term) {
		if bindName == nil {
			return
		}
		if o := t.info.Implicits[cc]; o != nil {
			val = t.coerceTo(val, val.T, o.Type(), cc.Pos())
			t.assign(t.localVar(o), val)
		}
	}
	for _, cs := range x.Body.List {
		cc := cs.(*ast.CaseClause)
		if cc.List == nil {
			defaultClause = cc
			continue
		}
		if t.cur == nil {
			break
		}
		var conds []Term
		var single types.Type
		for _, e := range cc.List {
			if id, ok := e.(*ast.Ident); ok && id.Name == "nil" {
				conds = append(conds, eq(v, intLit(0)))
				continue
			}
			T := t.typeOf(e)
			single = T
			conds = append(conds, t.hasDynType(v, T))
		}
		bt, bf := t.branch(or(conds...))
		t.cur = bt
		if len(cc.List) == 1 && single != nil {
			if isInterface(single) {
				vv := v
				vv.T = single
				bind(cc, vv)
			} else {
				bind(cc, t.unbox(v, single))
			}
		} else {
			vv := v
			vv.T = subjT
			bind(cc, vv)
		}
		t.stmts(cc.Body)
		ends = append(ends, t.cur)
		t.cur = bf
	}
	if defaultClause != nil && t.cur != nil {
		vv := v
		vv.T = subjT
		bind(defaultClause, vv)
		t.stmts(defaultClause.Body)
	}
	ends = append(ends, t.cur)
	t.loops = t.loops[:len(t.loops)-1]
	ends = append(ends, lc.breaks...)
	t.cur = t.join(ends...)
}

func (t *tr) selectStmt(x *ast.SelectStmt) {
	if t.cur == nil {
		return
	}
	label := t.pendingLabel
	t.pendingLabel = ""
	lc := &loopCtx{label: label, isSwitch: true}
	t.loops = append(t.loops, lc)
	n := len(x.Body.List)
	if n == 0 {
		t.cur = nil
		t.loops = t.loops[:len(t.loops)-1]
		return
	}
	bs := t.fork(n)
	var ends []*Block
	for i, cs := range x.Body.List {
		cc := cs.(*ast.CommClause)
		t.cur = bs[i]
		if cc.Comm != nil {
			t.stmt(cc.Comm)
		}
		t.stmts(cc.Body)
		ends = append(ends, t.cur)
	}
	t.loops = t.loops[:len(t.loops)-1]
	ends = append(ends, lc.breaks...)
	t.cur = t.join(ends...)
}
