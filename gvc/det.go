package main

import (
	"fmt"
	"go/token"
	"strings"
)

// ---- determinism discipline (`flag deterministic`) ----
//
// A unit flagged deterministic gets an obligation det/<what> at every construct whose outcome is not a function of
// the unit's inputs and the heap: ranging over a map, go/select statements, channel receives, reads of package-level
// variables, and calls to functions whose own contract is not flagged deterministic. The obligation is that the
// construct is unreachable; `flag det_allow k1,k2` lists callees and globals that are allowed (each must be
// justified in the contract file). Calls to deterministic callees are recorded as discharged obligations.

func (t *tr) detOn() bool {
	return t.u != nil && t.u.Contract != nil && t.u.Contract.Flags["deterministic"] == "true" && t.dry == 0 && t.cur != nil
}

func (t *tr) detAllowed(key string) bool {
	for _, k := range strings.Split(t.u.Contract.Flags["det_allow"], ",") {
		if strings.TrimSpace(k) == key {
			return true
		}
	}
	return false
}

// detViolation emits the obligation that a nondeterministic construct is unreachable.
func (t *tr) detViolation(what string, pos token.Pos, desc string) {
	if !t.detOn() {
		return
	}
	t.counters["det/"+what]++
	t.assert(tFalse, "det/"+what, fmt.Sprintf("#%d", t.counters["det/"+what]), pos, "determinism: "+desc)
}

// detCall checks a call site: the callee's contract must carry `flag deterministic` (or be allowed).
func (t *tr) detCall(key string, con *Contract, pos token.Pos) {
	if !t.detOn() {
		return
	}
	if con != nil && con.Flags["deterministic"] == "true" || t.detAllowed(key) {
		t.counters["det/call"]++
		t.assert(tTrue, "det/call", fmt.Sprintf("%s#%d", key, t.counters["det/call"]), pos, "determinism: callee "+key+" is deterministic by its contract")
		return
	}
	t.detViolation("call/"+key, pos, "call of "+key+", whose contract is not flagged deterministic")
}

// faddrTag gives every interior-address function (one per struct field) a distinct tag, so that the addresses of
// different fields — of the same or of different struct types — are known to differ.
var faddrTags = map[string]int{}

func faddrTag(name string) int {
	if k, ok := faddrTags[name]; ok {
		return k
	}
	// deterministic: a hash of the name (collisions between the handful of names in use are checked)
	h := 0
	for _, c := range name {
		h = (h*131 + int(c)) % 1000003
	}
	for _, v := range faddrTags {
		if v == h {
			h++
		}
	}
	faddrTags[name] = h
	return h
}
