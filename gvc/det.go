package main

import (
	"fmt"
	"go/types"
	"go/token"
	"strings"
)

// ---- determinism discipline (`flag deterministic`) ----
//
// A unit flagged deterministic gets an obligation det/<what> at every construct whose outcome is not a function of
// the unit's inputs and the heap: ranging over a map, go/select statements, channel receives, reads of package-level
// variables, and calls to functions whose own contract is not flagged deterministic. The obligation is that the
// construct is unreachable; `flag det_allow k1,k2` lists callees and globals that are allowed (each must be
// justified in the contract file). Calls to deterministic callees are recorded as discharged obligations.

func (t *tr) detOn() bool {
	return t.u != nil && t.u.Contract != nil && t.u.Contract.Flags["deterministic"] == "true" && t.dry == 0 && t.cur != nil
}

func (t *tr) detAllowed(key string) bool {
	for _, k := range strings.Split(t.u.Contract.Flags["det_allow"], ",") {
		if strings.TrimSpace(k) == key {
			return true
		}
	}
	return false
}

// detViolation emits the obligation that a nondeterministic construct is unreachable.
func (t *tr) detViolation(what string, pos token.Pos, desc string) {
	if !t.detOn() {
		return
	}
	t.counters["det/"+what]++
	t.assert(tFalse, "det/"+what, fmt.Sprintf("#%d", t.counters["det/"+what]), pos, "determinism: "+desc)
}

// detCall checks a call site: the callee's contract must carry `flag deterministic` (or be allowed).
func (t *tr) detCall(key string, con *Contract, pos token.Pos) {
	if !t.detOn() {
		return
	}
	if con != nil && con.Flags["deterministic"] == "true" || t.detAllowed(key) || effectFreeByDefault(key) {
		t.counters["det/call/"+key]++
		t.assert(tTrue, "det/call", fmt.Sprintf("%s#%d", key, t.counters["det/call/"+key]), pos, "determinism: callee "+key+" is deterministic by its contract")
		return
	}
	t.detViolation("call/"+key, pos, "call of "+key+", whose contract is not flagged deterministic")
}

// faddrTag gives every interior-address function (one per struct field) a distinct tag, so that the addresses of
// different fields — of the same or of different struct types — are known to differ.
var faddrTags = map[string]int{}

func faddrTag(name string) int {
	if k, ok := faddrTags[name]; ok {
		return k
	}
	// deterministic: a hash of the name (collisions between the handful of names in use are checked)
	h := 0
	for _, c := range name {
		h = (h*131 + int(c)) % 1000003
	}
	for _, v := range faddrTags {
		if v == h {
			h++
		}
	}
	faddrTags[name] = h
	return h
}

// ---- channel tokens (`flag chan_tokens <ghostvar>:<element type>`) ----
//
// Channels of the given element type are treated as holders of tokens (a one-slot channel that carries a shared
// object, say): a receive increments the ghost counter, a send decrements it. A contract can then state, with
// always_ensures, that every token taken is handed back on every exit, panics included.

func (t *tr) chanToken(chanT types.Type, delta int64) {
	if t.u == nil || t.u.Contract == nil || t.cur == nil {
		return
	}
	spec := t.u.Contract.Flags["chan_tokens"]
	if spec == "" {
		return
	}
	ct, ok := chanT.Underlying().(*types.Chan)
	if !ok {
		return
	}
	for _, item := range strings.Split(spec, ",") {
		kv := strings.SplitN(strings.TrimSpace(item), ":", 2)
		if len(kv) != 2 || typeKey(ct.Elem()) != strings.TrimSpace(kv[1]) {
			continue
		}
		for _, d := range t.V.CS.Decls {
			if d.Kind == "ghostvar" && d.Name == strings.TrimSpace(kv[0]) {
				gv := t.ghostVar(d)
				t.assign(gv, add(t.read(gv), intLit(delta)))
				return
			}
		}
		t.errorf(token.NoPos, "chan_tokens: unknown ghostvar %s", kv[0])
	}
}
