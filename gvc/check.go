package main

import (
	"context"
	"encoding/json"
	"flag"
	"fmt"
	"go/ast"
	"go/importer"
	"go/parser"
	"go/token"
	"go/types"
	"os"
	"os/exec"
	"path/filepath"
	"sort"
	"strconv"
	"strings"
	"time"

	"golang.org/x/tools/go/packages"
)

// PropConfig is /verif/props/<id>.json.
type PropConfig struct {
	ID        string   `json:"id"`
	Level     string   `json:"level"`
	Packages  []string `json:"packages"`
	Units     []string `json:"units"`
	Lemmas    []string `json:"lemmas"`
	Thorough  []string `json:"thorough_units"` // additional units in the thorough tier
	ThoroughLemmas []string `json:"thorough_lemmas"`
	Mutants   []string `json:"mutants"`  // patch files under /verif/mutants, must-fail corpus
	Canaries  []string `json:"canaries"` // subset run in the quick tier
	Harmless  []string `json:"harmless"` // patches that must NOT raise an alarm
	Bounded   []BoundedRun `json:"bounded"`
	Assumptions []string `json:"assumptions"`
	Explanation string `json:"explanation"`
	QuickTimeout int `json:"quick_timeout"`
	ThoroughTimeout int `json:"thorough_timeout"`
}

type BoundedRun struct {
	Name  string `json:"name"`
	Pkg   string `json:"pkg"`   // package dir relative to repo
	File  string `json:"file"`  // test file under /verif/bounded to inject
	Run   string `json:"run"`   // -run pattern
	Bound string `json:"bound"` // human-readable bound
	Tier  string `json:"tier"`  // "" = both, "thorough"
}

type knownFinding struct {
	Kind       string // finding | fixed
	Property   string
	Obligation string
	What       string
	Raw        string
}

func readKnownFindings() []knownFinding {
	b, err := os.ReadFile(filepath.Join(verifDir, "known_findings.txt"))
	if err != nil {
		return nil
	}
	var out []knownFinding
	for _, l := range strings.Split(string(b), "\n") {
		l = strings.TrimSpace(l)
		if l == "" || strings.HasPrefix(l, "#") {
			continue
		}
		k := knownFinding{Raw: l}
		switch {
		case strings.HasPrefix(l, "finding:"):
			k.Kind = "finding"
		case strings.HasPrefix(l, "fixed:"):
			k.Kind = "fixed"
		default:
			continue
		}
		for _, f := range splitFields(l) {
			if strings.HasPrefix(f, "property=") {
				k.Property = f[len("property="):]
			} else if strings.HasPrefix(f, "obligation=") {
				k.Obligation = f[len("obligation="):]
			} else if strings.HasPrefix(f, "what=") {
				k.What = strings.Trim(f[len("what="):], "\"")
			}
		}
		out = append(out, k)
	}
	return out
}

// splitFields splits on spaces outside double quotes.
func splitFields(s string) []string {
	var out []string
	var cur strings.Builder
	inq := false
	for _, c := range s {
		switch {
		case c == '"':
			inq = !inq
			cur.WriteRune(c)
		case c == ' ' && !inq:
			if cur.Len() > 0 {
				out = append(out, cur.String())
				cur.Reset()
			}
		default:
			cur.WriteRune(c)
		}
	}
	if cur.Len() > 0 {
		out = append(out, cur.String())
	}
	return out
}

type runOutcome struct {
	results   []*UnitResult
	v         *Verifier
	errs      []string
	obls      []*Obligation
	failed    []*Obligation
	solverTime map[string]float64
	bySolver  map[string]int
}

func obOK(ob *Obligation) bool {
	if ob.Cover {
		return ob.Verdict == "sat" || ob.Verdict == "unknown" || ob.Verdict == "timeout"
	}
	return ob.Verdict == "unsat"
}

// runProperty generates and discharges all obligations of a property on the given verifier.
// retryUndecided enables the second-chance pass of runProperty (main run of a check, not mutant runs).
var retryUndecided = false

func runProperty(v *Verifier, cfg *PropConfig, tier string, timeoutS int, agreement bool) *runOutcome {
	out := &runOutcome{v: v, solverTime: map[string]float64{}, bySolver: map[string]int{}}
	out.errs = append(out.errs, v.CS.Errs...)
	units := append([]string{}, cfg.Units...)
	lemmas := append([]string{}, cfg.Lemmas...)
	if tier == "thorough" {
		units = append(units, cfg.Thorough...)
		lemmas = append(lemmas, cfg.ThoroughLemmas...)
	}
	for _, k := range units {
		u, ok := v.Units[k]
		if !ok {
			out.errs = append(out.errs, "unit not found in the source tree: "+k)
			continue
		}
		if u.Contract == nil {
			out.errs = append(out.errs, "unit has no contract: "+k)
			continue
		}
		if u.Contract.Extern {
			out.errs = append(out.errs, "unit is declared extern (trusted) but listed for verification: "+k)
			continue
		}
		r := v.generate(u)
		out.results = append(out.results, r)
		for _, e := range r.Errs {
			out.errs = append(out.errs, k+": "+e)
		}
	}
	for _, d := range v.CS.Decls {
		if d.Kind == "lemma" && matchAny(d.Label, lemmas) {
			r := v.lemmaResult(d)
			out.results = append(out.results, r)
			for _, e := range r.Errs {
				out.errs = append(out.errs, "lemma "+d.Label+": "+e)
			}
		}
	}
	for _, l := range lemmas {
		if strings.HasSuffix(l, "*") {
			continue
		}
		found := false
		for _, d := range v.CS.Decls {
			if d.Kind == "lemma" && d.Label == l {
				found = true
			}
		}
		if !found {
			out.errs = append(out.errs, "lemma not found: "+l)
		}
	}
	solveAll(out.results, v.W.prelude, timeoutS, 16, agreement)
	// Second chance for obligations no solver decided (timeout/unknown, never sat): a few of them are re-run one at
	// a time with a longer limit, so that a loaded machine does not turn a slow proof into an alarm. A run in which
	// many obligations fail (a broken tree) is not retried.
	if retryUndecided {
		var und []*Obligation
		for _, r := range out.results {
			for _, ob := range r.Obls {
				if !obOK(ob) && !ob.Cover && (ob.Verdict == "timeout" || ob.Verdict == "unknown") && ob.Query != "" && !strings.Contains(ob.Model, ": sat ") {
					und = append(und, ob)
				}
			}
		}
		if len(und) > 0 && len(und) <= 6 {
			tmp, err := os.MkdirTemp("", "gvcretry")
			if err == nil {
				for i, ob := range und {
					ob.Verdict = ""
					discharge(ob, ob.Query, timeoutS*3, tmp, 100000+i, agreement)
				}
				os.RemoveAll(tmp)
			}
		}
	}
	// The declarations and axioms alone must not be contradictory (a contradictory axiom set would discharge every
	// obligation vacuously; the per-path covers catch that too, this names the cause).
	if len(out.results) > 0 {
		ax := &Obligation{Name: "axioms/consistent", Kind: "cover", Cover: true, Unit: "(prelude)", Desc: "the declared axioms are not contradictory"}
		if tmp, err := os.MkdirTemp("", "gvcax"); err == nil {
			pre := v.W.prelude()
			axioms := ""
			if k := strings.Index(pre, ";;AXIOMS\n"); k >= 0 {
				pre, axioms = pre[:k], pre[k:]
			}
			var qb strings.Builder
			qb.WriteString(pre)
			for _, av := range v.axiomVars {
				fmt.Fprintf(&qb, "(declare-const %s %s)\n", av.at(0).S, av.Sort)
			}
			qb.WriteString(axioms)
			qb.WriteString("\n(check-sat)\n")
			r := runSolver(context.Background(), solvers[0], qb.String(), 5, tmp, "axioms")
			ax.Verdict, ax.Solver, ax.Time = r.Verdict, r.Solver, r.Time
			os.RemoveAll(tmp)
		} else {
			ax.Verdict = "unknown"
		}
		out.results[0].Obls = append(out.results[0].Obls, ax)
	}
	for _, r := range out.results {
		for _, ob := range r.Obls {
			out.obls = append(out.obls, ob)
			if !obOK(ob) {
				out.failed = append(out.failed, ob)
			}
			s := strings.TrimSuffix(ob.Solver, "(cached)")
			out.bySolver[s]++
			out.solverTime[s] += ob.Time
		}
	}
	return out
}

// ---- mutants: re-typecheck one package with replaced file contents ----

// applyPatchToCopy applies a unified diff to a scratch copy of the files it touches and returns path->new content.
func applyPatch(patch string) (map[string][]byte, error) {
	tmp, err := os.MkdirTemp("", "gvcmut")
	if err != nil {
		return nil, err
	}
	defer os.RemoveAll(tmp)
	data, err := os.ReadFile(patch)
	if err != nil {
		return nil, err
	}
	var files []string
	for _, l := range strings.Split(string(data), "\n") {
		if strings.HasPrefix(l, "+++ ") {
			f := strings.TrimSpace(strings.TrimPrefix(l, "+++ "))
			f = strings.TrimPrefix(f, "b/")
			if i := strings.IndexByte(f, '\t'); i >= 0 {
				f = f[:i]
			}
			if f != "/dev/null" {
				files = append(files, f)
			}
		}
	}
	for _, f := range files {
		src := filepath.Join(repoDir, f)
		dst := filepath.Join(tmp, f)
		os.MkdirAll(filepath.Dir(dst), 0o755)
		b, err := os.ReadFile(src)
		if err != nil {
			return nil, err
		}
		os.WriteFile(dst, b, 0o644)
	}
	cmd := exec.Command("patch", "-p1", "-s", "-i", patch)
	cmd.Dir = tmp
	if out, err := cmd.CombinedOutput(); err != nil {
		return nil, fmt.Errorf("patch %s: %v: %s", patch, err, out)
	}
	res := map[string][]byte{}
	for _, f := range files {
		b, err := os.ReadFile(filepath.Join(tmp, f))
		if err != nil {
			return nil, err
		}
		res[filepath.Join(repoDir, f)] = b
	}
	return res, nil
}

type mapImporter struct {
	pkgs map[string]*packages.Package
	def  types.Importer
}

func (m mapImporter) Import(path string) (*types.Package, error) {
	if p, ok := m.pkgs[path]; ok && p.Types != nil {
		return p.Types, nil
	}
	return m.def.Import(path)
}

// recheck re-parses and re-typechecks the packages containing replaced files, returning a new package list.
func recheck(pkgs []*packages.Package, all map[string]*packages.Package, repl map[string][]byte, ov map[string][]byte) ([]*packages.Package, error) {
	var out []*packages.Package
	for _, p := range pkgs {
		touched := false
		for _, f := range p.GoFiles {
			if _, ok := repl[f]; ok {
				touched = true
			}
		}
		if !touched {
			out = append(out, p)
			continue
		}
		fset := p.Fset
		var files []*ast.File
		for _, f := range p.GoFiles {
			var src interface{}
			if b, ok := repl[f]; ok {
				src = b
			} else if b, ok := ov[f]; ok {
				src = b
			}
			af, err := parser.ParseFile(fset, f, src, parser.ParseComments)
			if err != nil {
				return nil, err
			}
			files = append(files, af)
		}
		info := &types.Info{Types: map[ast.Expr]types.TypeAndValue{}, Defs: map[*ast.Ident]types.Object{}, Uses: map[*ast.Ident]types.Object{},
			Implicits: map[ast.Node]types.Object{}, Selections: map[*ast.SelectorExpr]*types.Selection{}, Scopes: map[ast.Node]*types.Scope{}, Instances: map[*ast.Ident]types.Instance{}}
		var terrs []string
		conf := types.Config{Importer: mapImporter{all, importer.Default()}, Error: func(err error) { terrs = append(terrs, err.Error()) }}
		tp, _ := conf.Check(p.PkgPath, fset, files, info)
		if len(terrs) > 0 {
			return nil, fmt.Errorf("mutant does not type-check: %s", strings.Join(terrs, "; "))
		}
		np := *p
		np.Syntax = files
		np.Types = tp
		np.TypesInfo = info
		out = append(out, &np)
	}
	return out, nil
}

// ---- the check command ----

var buildOverlay map[string][]byte

type evidence struct {
	PropertyID string                 `json:"property_id"`
	Tier       string                 `json:"tier"`
	Seed       int                    `json:"seed"`
	Level      string                 `json:"level"`
	Coverage   map[string]interface{} `json:"coverage"`
	Assumptions []string              `json:"assumptions"`
	WallS      float64                `json:"wall_s"`
	Violations int                    `json:"violations"`
}

func cmdCheck(args []string) {
	start := time.Now()
	if len(args) < 1 {
		fmt.Fprintln(os.Stderr, "usage: gvc check <Cxx> [--tier quick|thorough] [--replay file]")
		os.Exit(2)
	}
	id := args[0]
	fs := flag.NewFlagSet("check", flag.ExitOnError)
	tier := fs.String("tier", "", "quick|thorough")
	replay := fs.String("replay", "", "replay file to re-run")
	nocache := fs.Bool("nocache", false, "ignore the verdict cache")
	updateBaseline := fs.Bool("update-baseline", false, "rewrite the baseline obligation list (maintainer use, unchanged tree only)")
	nomut := fs.Bool("nomutants", false, "skip the must-fail corpus")
	fs.Parse(args[1:])
	if *tier == "" {
		*tier = os.Getenv("VERIF_TIER")
	}
	if *tier == "" {
		*tier = "quick"
	}
	useCache = !*nocache
	seed, _ := strconv.Atoi(os.Getenv("VERIF_SEED"))
	if *replay != "" {
		os.Exit(doReplay(id, *replay))
	}
	var cfg PropConfig
	b, err := os.ReadFile(filepath.Join(verifDir, "props", id+".json"))
	if err != nil {
		fmt.Fprintln(os.Stderr, err)
		os.Exit(2)
	}
	if err := json.Unmarshal(b, &cfg); err != nil {
		fmt.Fprintln(os.Stderr, "props:", err)
		os.Exit(2)
	}
	timeoutS := cfg.QuickTimeout
	if timeoutS == 0 {
		timeoutS = 10
	}
	agreement := false
	if *tier == "thorough" {
		timeoutS = cfg.ThoroughTimeout
		if timeoutS == 0 {
			timeoutS = 60
		}
	}
	tmp, _ := os.MkdirTemp("", "gvcov")
	defer os.RemoveAll(tmp)
	ov, ovPath, err := makeOverlay(tmp)
	if err != nil {
		fmt.Fprintln(os.Stderr, err)
		os.Exit(2)
	}
	buildOverlay = ov
	currentOvPath = ovPath
	pkgs, err := loadPackages(cfg.Packages, ov)
	if err != nil {
		fmt.Fprintln(os.Stderr, err)
		os.Exit(2)
	}
	var loadErrs []string
	for _, p := range pkgs {
		for _, e := range p.Errors {
			loadErrs = append(loadErrs, e.Error())
		}
	}
	v := newVerifier(pkgs)
	axErrs := v.evalAxioms()
	retryUndecided = true
	out := runProperty(v, &cfg, *tier, timeoutS, agreement)
	retryUndecided = false
	out.errs = append(append(loadErrs, axErrs...), out.errs...)

	known := readKnownFindings()
	isKnown := func(ob *Obligation) *knownFinding {
		for i := range known {
			if known[i].Kind == "finding" && known[i].Property == id && known[i].Obligation == ob.Name {
				return &known[i]
			}
		}
		return nil
	}
	// baseline comparison
	baseFile := filepath.Join(verifDir, "baseline", id+"."+*tier+".txt")
	var names []string
	for _, ob := range out.obls {
		names = append(names, ob.Name)
	}
	sort.Strings(names)
	if *updateBaseline {
		os.MkdirAll(filepath.Dir(baseFile), 0o755)
		os.WriteFile(baseFile, []byte(strings.Join(names, "\n")+"\n"), 0o644)
	}
	var missing []string
	if bb, err := os.ReadFile(baseFile); err == nil {
		have := map[string]bool{}
		for _, n := range names {
			have[n] = true
		}
		for _, n := range strings.Split(strings.TrimSpace(string(bb)), "\n") {
			if n != "" && !have[n] {
				missing = append(missing, n)
			}
		}
	} else {
		out.errs = append(out.errs, "baseline obligation list missing: "+baseFile)
	}

	violations := 0
	var knownPrinted []string
	os.MkdirAll(filepath.Join(verifDir, "replays", id), 0o755)
	report := func(name string, rep map[string]interface{}, reproduced bool) {
		violations++
		path := filepath.Join(verifDir, "replays", id, sanitize(name)+".json")
		rep["property"] = id
		rep["obligation"] = name
		rep["reproduced"] = reproduced
		jb, _ := json.MarshalIndent(rep, "", " ")
		os.WriteFile(path, jb, 0o644)
		if reproduced {
			fmt.Printf("VIOLATION property=%s replay=%s\n", id, path)
		} else {
			fmt.Printf("VIOLATION property=%s replay=%s no-failing-input-found\n", id, path)
		}
	}
	for _, e := range out.errs {
		fmt.Println("NOT-VERIFIABLE:", e)
	}
	if len(out.errs) > 0 {
		report("not-verifiable", map[string]interface{}{"reason": "the verifier could not generate all obligations (unsupported construct, missing contract, or unit removed)", "errors": out.errs}, false)
	}
	for _, n := range missing {
		report(n, map[string]interface{}{"reason": "obligation-not-generated: present in the baseline list for the unchanged tree, absent now"}, false)
	}
	for _, ob := range out.failed {
		if k := isKnown(ob); k != nil && strings.HasPrefix(ob.Desc, "KNOWN:") {
			line := fmt.Sprintf("KNOWN-FINDING: property=%s obligation=%s %s", id, ob.Name, k.What)
			fmt.Println(line)
			knownPrinted = append(knownPrinted, line)
			continue
		}
		rep := map[string]interface{}{"verdict": ob.Verdict, "solver": ob.Solver, "position": ob.Pos, "description": ob.Desc, "solver_output": ob.Model, "kind": ob.Kind}
		if ob.Cover {
			rep["reason"] = "vacuity: this program point became unreachable under the contracts (cover query is unsat)"
			report(ob.Name, rep, false)
			continue
		}
		reproduced := false
		if ob.Verdict == "sat" {
			reproduced = tryReplay(out, ob, rep, ovPath)
		}
		report(ob.Name, rep, reproduced)
	}

	// must-fail corpus and harmless canaries
	mutKilled, mutRun := 0, 0
	var mutReport []map[string]interface{}
	if !*nomut {
		list := cfg.Canaries
		if *tier == "thorough" {
			list = cfg.Mutants
		}
		for _, m := range list {
			mutRun++
			killed, which, err := runMutant(pkgs, v, &cfg, *tier, m, timeoutS)
			entry := map[string]interface{}{"mutant": m, "killed": killed, "by": which}
			if err != nil {
				entry["error"] = err.Error()
			}
			mutReport = append(mutReport, entry)
			if killed {
				mutKilled++
			} else {
				fmt.Printf("SELFTEST-FAILED: must-fail mutant %s was not detected (%v)\n", m, err)
				report("selftest/"+m, map[string]interface{}{"reason": "self-test: a must-fail mutant of the corpus is no longer detected; the check cannot be trusted", "error": fmt.Sprint(err)}, false)
			}
		}
		if *tier == "thorough" {
			for _, m := range cfg.Harmless {
				killed, which, err := runMutant(pkgs, v, &cfg, *tier, m, timeoutS)
				entry := map[string]interface{}{"harmless": m, "alarm": killed, "by": which}
				if err != nil {
					entry["error"] = err.Error()
				}
				mutReport = append(mutReport, entry)
				if killed {
					fmt.Printf("SELFTEST-FAILED: harmless change %s raises an alarm (%v)\n", m, which)
					report("selftest/"+m, map[string]interface{}{"reason": "self-test: a behaviour-preserving change raises an alarm (brittle contract)", "by": which}, false)
				}
			}
		}
	}
	// bounded stand-ins
	var boundedRep []map[string]interface{}
	for _, br := range cfg.Bounded {
		if br.Tier == "thorough" && *tier != "thorough" {
			continue
		}
		ok, outp, dur := runBounded(br, ovPath)
		boundedRep = append(boundedRep, map[string]interface{}{"name": br.Name, "bound": br.Bound, "passed": ok, "wall_s": dur, "label": "bounded (not counted as proved)"})
		if !ok {
			report("bounded/"+br.Name, map[string]interface{}{"reason": "bounded conformance run of an assumed contract failed on the real code", "output": outp}, true)
		}
	}

	// evidence
	claimed, discharged := 0, 0
	var samples []interface{}
	units := map[string]bool{}
	for _, ob := range out.obls {
		if strings.HasPrefix(ob.Desc, "KNOWN:") && isKnown(ob) != nil {
			continue
		}
		claimed++
		if obOK(ob) {
			discharged++
		}
		units[ob.Unit] = true
	}
	step := len(out.obls)/6 + 1
	for i := 0; i < len(out.obls); i += step {
		ob := out.obls[i]
		samples = append(samples, map[string]interface{}{"obligation": ob.Name, "at": ob.Pos, "goal": ob.Desc, "verdict": ob.Verdict, "solver": ob.Solver, "solver_s": ob.Time})
	}
	var ulist []string
	for u := range units {
		ulist = append(ulist, u)
	}
	sort.Strings(ulist)
	var trusted []string
	for k, c := range v.CS.Funcs {
		if c.Extern && c.Used {
			trusted = append(trusted, "assumed contract: "+k)
		}
	}
	sort.Strings(trusted)
	for _, a := range v.W.axioms {
		trusted = append(trusted, "axiom: "+a.Name)
	}
	trusted = append(trusted, "gvc VC generator (/verif/gvc) and its Go subset encoding", "SMT solvers z3 4.8.12 / z3 5.1.0 / cvc5 1.0", "build overlay (go.mod go-line, grailbio/base shims, exec/config.go) — see DESIGN.md §1")
	assumptions := append([]string{}, cfg.Assumptions...)
	assumptions = append(assumptions, v.Notes...)
	assumptions = append(assumptions, "signed integer arithmetic is mathematical unless the unit's contract says `overflow checked`; unsigned arithmetic wraps")
	cov := map[string]interface{}{
		"obligations": claimed, "discharged": discharged,
		"checker_cmd": fmt.Sprintf("/verif/bin/gvc check %s --tier %s", id, *tier),
		"trusted_base": trusted, "samples": samples,
		"functions_under_contract": ulist,
		"by_backend": out.bySolver, "solver_time_s": out.solverTime,
		"solver_timeout_s": timeoutS,
		"known_findings_printed": knownPrinted,
		"mutants_run": mutRun, "mutants_killed": mutKilled, "selftest": mutReport,
		"bounded": boundedRep,
		"baseline_obligations_missing": missing,
		"explanation": cfg.Explanation,
		"evaluations": len(out.obls), "distinct_nontrivial": countNontrivial(out.obls),
		"rule": "one evaluation = one proof obligation generated from /repo's current source and sent to the solvers; non-trivial = not discharged syntactically (needed a solver) and distinct by name",
	}
	level := cfg.Level
	if level == "" {
		level = "proof"
	}
	ev := evidence{PropertyID: id, Tier: *tier, Seed: seed, Level: level, Coverage: cov, Assumptions: assumptions, WallS: time.Since(start).Seconds(), Violations: violations}
	os.MkdirAll(filepath.Join(verifDir, "evidence"), 0o755)
	eb, _ := json.MarshalIndent(ev, "", " ")
	os.WriteFile(filepath.Join(verifDir, "evidence", id+".json"), eb, 0o644)
	fmt.Printf("%s tier=%s obligations=%d discharged=%d known=%d violations=%d mutants=%d/%d wall=%.1fs\n", id, *tier, claimed, discharged, len(knownPrinted), violations, mutKilled, mutRun, time.Since(start).Seconds())
	if violations > 0 {
		os.Exit(1)
	}
}

func countNontrivial(obls []*Obligation) int {
	seen := map[string]bool{}
	for _, ob := range obls {
		if ob.Solver != "trivial" {
			seen[ob.Name] = true
		}
	}
	return len(seen)
}

func sanitize(s string) string {
	return strings.NewReplacer("/", "_", "*", "", "(", "", ")", "", " ", "_", "$", "-", ":", "_").Replace(s)
}

// runMutant applies a patch (through re-typechecking, never touching /repo) and reports whether the check detects it.
func runMutant(pkgs []*packages.Package, v0 *Verifier, cfg *PropConfig, tier, patch string, timeoutS int) (bool, string, error) {
	repl, err := applyPatch(filepath.Join(verifDir, "mutants", patch))
	if err != nil {
		return false, "", err
	}
	npkgs, err := recheck(pkgs, v0.Pkgs, repl, buildOverlay)
	if err != nil {
		return false, "", err
	}
	v := newVerifier(npkgs)
	v.evalAxioms()
	out := runProperty(v, cfg, tier, timeoutS, false)
	if len(out.errs) > 0 {
		return true, "not-verifiable: " + out.errs[0], nil
	}
	for _, ob := range out.failed {
		if strings.HasPrefix(ob.Desc, "KNOWN:") {
			continue
		}
		return true, ob.Name + " (" + ob.Verdict + ")", nil
	}
	// not caught by the proof obligations: try the bounded conformance runs on the mutated sources (via overlay)
	for _, br := range cfg.Bounded {
		ok, _, _ := runBoundedWith(br, currentOvPath, repl)
		if !ok {
			return true, "bounded/" + br.Name + " (bounded run fails on the mutated source)", nil
		}
	}
	return false, "", fmt.Errorf("all %d obligations discharged", len(out.obls))
}

func runBounded(br BoundedRun, ovPath string) (bool, string, float64) {
	return runBoundedWith(br, ovPath, nil)
}

var currentOvPath string

// runBoundedWith runs a bounded conformance test, optionally with source files replaced (mutant self-test).
func runBoundedWith(br BoundedRun, ovPath string, repl map[string][]byte) (bool, string, float64) {
	start := time.Now()
	// inject the test file through a copy of the overlay
	var ov struct{ Replace map[string]string }
	b, _ := os.ReadFile(ovPath)
	json.Unmarshal(b, &ov)
	dst := filepath.Join(repoDir, br.Pkg, "zz_verif_bounded_test.go")
	ov.Replace[dst] = filepath.Join(verifDir, "bounded", br.File)
	if len(repl) > 0 {
		td, _ := os.MkdirTemp("", "gvcmutsrc")
		defer os.RemoveAll(td)
		i := 0
		for path, content := range repl {
			i++
			f := filepath.Join(td, fmt.Sprintf("m%d.go", i))
			os.WriteFile(f, content, 0o644)
			ov.Replace[path] = f
		}
	}
	nb, _ := json.Marshal(ov)
	np := ovPath + "." + sanitize(br.Name) + ".json"
	os.WriteFile(np, nb, 0o644)
	defer os.Remove(np)
	cmd := exec.Command("go", "test", "-overlay", np, "-vet=off", "-count=1", "-timeout", "300s", "-run", br.Run, "./"+br.Pkg)
	cmd.Dir = repoDir
	cmd.Env = append(os.Environ(), "GODEBUG=goindex=0", "GOFLAGS=-mod=mod", "GOPROXY=off", "GOSUMDB=off", "GOTOOLCHAIN=local")
	outp, err := cmd.CombinedOutput()
	return err == nil, tail(string(outp), 4000), time.Since(start).Seconds()
}

func tail(s string, n int) string {
	if len(s) > n {
		return s[len(s)-n:]
	}
	return s
}

var _ = token.NoPos
