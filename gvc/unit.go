package main

import (
	"fmt"
	"go/ast"
	"go/token"
	"go/types"
	"sort"
	"strings"
)

// UnitResult is the outcome of VC generation for one unit.
type UnitResult struct {
	Unit   *Unit
	Obls   []*Obligation
	Errs   []string
	tr     *tr
	Stats  map[string]int
}

func (v *Verifier) newTr(u *Unit) *tr {
	var info *types.Info
	if u.Pkg != nil {
		info = u.Pkg.TypesInfo
	}
	t := &tr{V: v, u: u, pkg: u.Pkg, info: info, vars: map[types.Object]*Var{}, named: map[string]*Var{},
		counters: map[string]int{}, errSet: map[string]bool{}, rangeColl: map[int]Term{}, loopEntry: map[int]Env{}, loopHeadEnv: map[int]Env{}, params: map[string]Term{}, touched: map[*Var]bool{}}
	t.allocTop = t.newVar("allocTop", SInt, nil, true)
	t.panicking = t.newVar("panicking", SBool, types.Typ[types.Bool], false)
	t.panicVal = t.newVar("panicval", SInt, nil, false)
	t.didPanic = t.newVar("didpanic", SBool, types.Typ[types.Bool], false)
	return t
}

// unitSpecCtx is the spec context of the unit's own contract: parameters denote entry values.
func (t *tr) unitSpecCtx(cur Env) *specCtx {
	vars := map[string]Term{}
	for k, v := range t.params {
		vars[k] = v
	}
	// variables captured by a function literal denote their value in the state the clause is evaluated in
	for _, c := range t.captured {
		if _, shadow := vars[c.name]; !shadow {
			vars[c.name] = t.readIn(cur, c.v)
		}
	}
	var pkg = t.u.Pkg
	if t.u.Contract != nil {
		if p, ok := t.V.Pkgs[t.u.Contract.PkgPath]; ok {
			pkg = p
		}
	}
	return &specCtx{pkg: pkg, vars: vars, cur: cur, old: Env{}, qn: t.qn(), where: t.u.Key}
}

// assumePointeeInv assumes the value invariants of what a pointer parameter points to (one level):
// the heap is well-typed on entry.
func (t *tr) assumePointeeInv(x Term, T types.Type, env Env) {
	pt, ok := T.Underlying().(*types.Pointer)
	if !ok {
		return
	}
	x.T = T
	if st, ok := pt.Elem().Underlying().(*types.Struct); ok {
		for i := 0; i < st.NumFields(); i++ {
			ft := st.Field(i).Type()
			switch ft.Underlying().(type) {
			case *types.Basic, *types.Slice, *types.Pointer, *types.Map:
				if fv, ok := t.loadFieldIdx(env, x, i); ok {
					t.assume(implies(neq(x, intLit(0)), t.typeInv(fv, ft, env)))
				}
			}
		}
		return
	}
	v := sel(t.readIn(env, t.ptrHeap(pt.Elem())), x)
	v.T = pt.Elem()
	t.assume(implies(neq(x, intLit(0)), t.typeInv(v, pt.Elem(), env)))
}

func containsRecover(body *ast.BlockStmt) bool {
	found := false
	ast.Inspect(body, func(n ast.Node) bool {
		if d, ok := n.(*ast.DeferStmt); ok {
			if lit, ok := ast.Unparen(d.Call.Fun).(*ast.FuncLit); ok {
				ast.Inspect(lit.Body, func(m ast.Node) bool {
					if c, ok := m.(*ast.CallExpr); ok {
						if id, ok := c.Fun.(*ast.Ident); ok && id.Name == "recover" {
							found = true
						}
					}
					return true
				})
			}
		}
		return true
	})
	return found
}

// generate translates the unit and produces its obligations.
func (v *Verifier) generate(u *Unit) *UnitResult {
	t := v.newTr(u)
	res := &UnitResult{Unit: u, tr: t}
	defer func() {
		if r := recover(); r != nil {
			t.errs = append(t.errs, fmt.Sprintf("internal error translating %s: %v", u.Key, r))
			res.Errs = t.errs
			res.Obls = t.obls
			if os_debug {
				panic(r)
			}
		}
	}()
	con := u.Contract
	if con != nil && con.Overflow == "checked" {
		t.checked = true
	}
	t.hasRecover = containsRecover(u.Body)
	root := t.newBlock()
	root.Env = Env{}
	t.root = root
	t.cur = root
	t.assume(gt(t.read(t.allocTop), intLit(0)))
	// parameters
	sig := u.Sig
	bindParam := func(o *types.Var, specName string) {
		if o == nil {
			return
		}
		pv := t.localVar(o)
		x := pv.at(0)
		t.assume(t.typeInv(x, o.Type(), root.Env))
		t.assumePointeeInv(x, o.Type(), root.Env)
		if specName != "" {
			t.params[specName] = x
		}
		t.params[o.Name()] = x
		t.paramVars = append(t.paramVars, pv)
	}
	names := []string{}
	if con != nil {
		names = con.ParamNames
	}
	ni := 0
	if sig.Recv() != nil {
		ro := sig.Recv()
		var rv *types.Var
		if u.Decl != nil && u.Decl.Recv != nil && len(u.Decl.Recv.List) == 1 && len(u.Decl.Recv.List[0].Names) == 1 {
			if o, ok := t.info.Defs[u.Decl.Recv.List[0].Names[0]].(*types.Var); ok {
				rv = o
			}
		}
		if rv == nil {
			// unnamed receiver: synthesize
			pv := t.newVar("L$recv", v.W.sortOf(ro.Type()), ro.Type(), false)
			x := pv.at(0)
			t.assume(t.typeInv(x, ro.Type(), root.Env))
			t.params["recv"] = x
		} else {
			sn := ""
			if len(names) == sig.Params().Len()+1 {
				sn = names[0]
				ni = 1
			}
			bindParam(rv, sn)
			t.params["recv"] = t.params[rv.Name()]
		}
	}
	idx := 0
	if u.FType.Params != nil {
		for _, fl := range u.FType.Params.List {
			if len(fl.Names) == 0 {
				idx++
				continue
			}
			for _, n := range fl.Names {
				o, _ := t.info.Defs[n].(*types.Var)
				sn := ""
				if ni+idx < len(names) {
					sn = names[ni+idx]
				}
				if o != nil && n.Name != "_" {
					bindParam(o, sn)
					t.params[fmt.Sprintf("arg%d", idx)] = t.params[o.Name()]
				}
				idx++
			}
		}
	}
	// captured variables of literals: arbitrary values satisfying their type invariant
	if u.Lit != nil {
		for _, o := range freeVars(u.Lit, t.info) {
			pv := t.localVar(o)
			t.assume(t.typeInv(pv.at(0), o.Type(), root.Env))
			t.captured = append(t.captured, capturedVar{o.Name(), pv})
		}
	}
	// results
	for i := 0; i < sig.Results().Len(); i++ {
		r := sig.Results().At(i)
		rv := t.newVar(fmt.Sprintf("L$result%d", i), v.W.sortOf(r.Type()), r.Type(), false)
		t.results = append(t.results, rv)
	}
	if u.FType.Results != nil {
		j := 0
		for _, fl := range u.FType.Results.List {
			if len(fl.Names) == 0 {
				j++
				continue
			}
			for _, n := range fl.Names {
				if o := t.info.Defs[n]; o != nil && n.Name != "_" {
					t.vars[o] = t.results[j]
				}
				j++
			}
		}
	}
	for i, rv := range t.results {
		t.assign(rv, v.W.zero(sig.Results().At(i).Type()))
	}
	// axioms are part of the prelude; requires are assumed
	if con != nil {
		sc := t.unitSpecCtx(root.Env)
		for _, cl := range con.clauses("requires") {
			sc.where = cl.Where
			t.assume(t.spec(cl.Expr, sc))
		}
	}
	// locals whose address is taken outside a call argument list live in a heap cell from their declaration on
	t.escaped = map[types.Object]bool{}
	{
		inCallArg := map[ast.Node]bool{}
		ast.Inspect(u.Body, func(n ast.Node) bool {
			if c, ok := n.(*ast.CallExpr); ok {
				if tv, ok := t.info.Types[c.Fun]; !ok || !tv.IsType() {
					for _, a := range c.Args {
						inCallArg[ast.Unparen(a)] = true
					}
				}
			}
			if ue, ok := n.(*ast.UnaryExpr); ok && ue.Op == token.AND && !inCallArg[ue] {
				if id, ok := ast.Unparen(ue.X).(*ast.Ident); ok {
					if o, ok := t.info.ObjectOf(id).(*types.Var); ok && !o.IsField() && o.Parent() != o.Pkg().Scope() {
						t.escaped[o] = true
					}
				}
			}
			return true
		})
	}
	t.assign(t.didPanic, tFalse)
	// deferred-call registration flags start out false
	nd := 0
	ast.Inspect(u.Body, func(n ast.Node) bool {
		switch n.(type) {
		case *ast.FuncLit:
			return false
		case *ast.DeferStmt:
			nd++
			fv := t.newVar(fmt.Sprintf("deferred$%d", nd), SBool, types.Typ[types.Bool], false)
			t.assign(fv, tFalse)
		}
		return true
	})
	t.cover("entry", u.Body.Pos())
	// body
	t.stmts(u.Body.List)
	if t.cur != nil {
		t.returns = append(t.returns, t.cur)
		t.cur = nil
	}
	t.finish()
	res.Obls = t.obls
	res.Errs = t.errs
	return res
}

var os_debug = false

// finish joins the exits, runs deferred calls and checks the postconditions.
func (t *tr) finish() {
	con := t.u.Contract
	normal := t.join(t.returns...)
	pan := t.join(t.panics...)
	t.returns, t.panics = nil, nil
	if len(t.defers) > 0 {
		if normal != nil {
			t.cur = normal
			t.assign(t.panicking, tFalse)
			// the values handed to `return`, before any deferred call ran: returnedN in postconditions
			t.returnedVars = nil
			for i, rv := range t.results {
				sv := t.tmpVar(fmt.Sprintf("returned%d", i), rv.Sort, rv.T)
				t.assign(sv, t.read(rv))
				t.returnedVars = append(t.returnedVars, sv)
			}
			t.assign(t.didPanic, tFalse)
			normal = t.cur
		}
		if pan != nil {
			t.cur = pan
			t.assign(t.didPanic, tTrue)
			t.assign(t.panicking, tTrue)
			t.assume(neq(t.read(t.panicVal), intLit(0)))
			pan = t.cur
		}
		t.cur = t.join(normal, pan)
		t.inDefer = true
		for i := len(t.defers) - 1; i >= 0 && t.cur != nil; i-- {
			d := t.defers[i]
			bt, bf := t.branch(t.read(d.flag))
			t.cur = bt
			t.runDefer(d)
			// a panic inside a deferred call replaces the current one
			if len(t.panics) > 0 {
				pb := t.join(t.panics...)
				t.panics = nil
				save := t.cur
				t.cur = pb
				t.assign(t.panicking, tTrue)
				pb = t.cur
				t.cur = t.join(save, pb)
			}
			// returns inside deferred literals just end the literal (handled by inlineLit)
			t.cur = t.join(t.cur, bf)
		}
		t.inDefer = false
		if t.cur != nil {
			bt, bf := t.branch(t.read(t.panicking))
			pan, normal = bt, bf
		} else {
			pan, normal = nil, nil
		}
	}
	mayPanic := con != nil && con.MayPanic
	var panicsIf []*Clause
	if con != nil {
		panicsIf = con.clauses("panics_if")
	}
	// normal exit
	if normal != nil {
		t.cur = normal
		t.cover("exit", t.u.Body.End())
		sc := t.unitSpecCtx(t.cur.Env)
		for i, rv := range t.results {
			r := t.read(rv)
			sc.vars[fmt.Sprintf("result%d", i)] = r
			sc.vars["panicked"] = t.read(t.didPanic) // the exit is reached through a recovered panic
			if i < len(t.returnedVars) {
				sc.vars[fmt.Sprintf("returned%d", i)] = t.read(t.returnedVars[i])
			} else {
				sc.vars[fmt.Sprintf("returned%d", i)] = r // no deferred calls: same value
			}
			if con != nil && i < len(con.ResultNames) {
				sc.vars[con.ResultNames[i]] = r
			} else if n := t.u.Sig.Results().At(i).Name(); n != "" && n != "_" {
				sc.vars[n] = r
			}
		}
		if len(t.results) == 1 {
			sc.vars["result"] = t.read(t.results[0])
		}
		for _, cl := range panicsIf {
			scOld := *sc
			scOld.cur = Env{}
			scOld.where = cl.Where
			t.assert(not(t.spec(cl.Expr, &scOld)), "panics_if/returns-normally-only-if-not", cl.Label, t.u.Body.End(), "normal return implies the panic condition was false: "+cl.Text)
		}
		if con != nil {
			for _, kind := range []string{"ensures", "always_ensures"} {
				for _, cl := range con.clauses(kind) {
					sc.where = cl.Where
					if kn := t.knownFor(cl.Label); kn != nil {
						// known finding: the clause is proved under the exclusion, and checked without it separately
						// the exclusion is evaluated like an ensures clause (final state; old(...) for entry values)
						excl := t.spec(kn.Expr, &specCtx{pkg: sc.pkg, vars: sc.vars, cur: sc.cur, old: Env{}, qn: sc.qn, where: kn.Where})
						t.assert(implies(excl, t.spec(cl.Expr, sc)), "post", cl.Label+"~excl", t.u.Body.End(), "postcondition under known-finding exclusion: "+cl.Text)
						ob := t.assert(t.spec(cl.Expr, sc), "post", cl.Label, t.u.Body.End(), "postcondition: "+cl.Text)
						if ob != nil {
							ob.Desc = "KNOWN:" + kn.Label + ":" + ob.Desc
						}
						continue
					}
					pob := t.assert(t.spec(cl.Expr, sc), "post", cl.Label, t.u.Body.End(), "postcondition: "+cl.Text)
					if pob != nil && t.heapUntouched() {
						rsc := t.unitSpecCtx(Env{})
						for i, rv := range t.results {
							r := Term{S: fmt.Sprintf("rr$%d", i), Sort: rv.Sort, T: rv.T}
							rsc.vars[fmt.Sprintf("result%d", i)] = r
							if con != nil && i < len(con.ResultNames) {
								rsc.vars[con.ResultNames[i]] = r
							} else if n := t.u.Sig.Results().At(i).Name(); n != "" && n != "_" {
								rsc.vars[n] = r
							}
							if len(t.results) == 1 {
								rsc.vars["result"] = r
							}
						}
						rsc.where = cl.Where
						pob.ReplayF = t.spec(cl.Expr, rsc).S
					}
				}
			}
		}
		t.checkFrame("frame")
	}
	// panic exit
	if pan != nil {
		t.cur = pan
		sc := t.unitSpecCtx(t.cur.Env)
		sc.vars["panicval"] = t.read(t.panicVal)
		if !mayPanic {
			var conds []Term
			for _, cl := range panicsIf {
				scOld := *sc
				scOld.cur = Env{}
				scOld.where = cl.Where
				conds = append(conds, t.spec(cl.Expr, &scOld))
			}
			t.assert(or(conds...), "panics_if/panics-only-if", "", t.u.Body.Pos(), "a panic leaves the function only under its declared panic condition")
		}
		if con != nil {
			for _, kind := range []string{"panic_ensures", "always_ensures"} {
				for _, cl := range con.clauses(kind) {
					sc.where = cl.Where
					t.assert(t.spec(cl.Expr, sc), "post-panic", cl.Label, t.u.Body.End(), "postcondition on panic exit: "+cl.Text)
				}
			}
		}
	}
	t.cur = nil
}

func (t *tr) heapUntouched() bool {
	for v := range t.touched {
		if v != t.allocTop {
			return false
		}
	}
	return true
}

func (t *tr) knownFor(label string) *Clause {
	if t.u.Contract == nil || label == "" {
		return nil
	}
	for _, cl := range t.u.Contract.clauses("known") {
		if cl.Label == label {
			return cl
		}
	}
	return nil
}

// checkFrame asserts that every heap changed by the unit changed only inside its modifies set.
func (t *tr) checkFrame(kind string) {
	con := t.u.Contract
	if con == nil || con.NoFrame || t.cur == nil {
		return
	}
	entry := Env{}
	sc := t.unitSpecCtx(entry)
	locs := t.modLocs(con.clauses("modifies"), sc)
	var hs []*Var
	for v := range t.touched {
		if v.Heap && v != t.allocTop && v.Name != "GV$ctxClock" {
			hs = append(hs, v)
		}
	}
	sort.Slice(hs, func(i, j int) bool { return hs[i].Name < hs[j].Name })
	for _, h := range hs {
		if t.cur.Env[h] == 0 {
			continue
		}
		f := t.frameFormula(h, entry, t.cur.Env, locs, t.qn())
		t.assert(f, kind, strings.NewReplacer(" ", "", "(", "<", ")", ">").Replace(h.Name), t.u.Body.End(), "only locations in the modifies clause change: "+h.Name)
	}
}

func (t *tr) runDefer(d *deferRec) {
	if d.inLoop {
		t.runLoopDefer(d)
		return
	}
	if lit, ok := ast.Unparen(d.call.Fun).(*ast.FuncLit); ok {
		t.inlineLit(lit, d.call.Args, d.pos)
		return
	}
	// arguments were evaluated at the defer statement: evaluate the call with the snapshots taken there
	saved := map[types.Object]*Var{}
	for o, sv := range d.snap {
		saved[o] = t.vars[o]
		t.vars[o] = sv
	}
	t.evCall(d.call)
	for o, lv := range saved {
		t.vars[o] = lv
	}
}

// freeVars returns the variables captured by a function literal.
func freeVars(lit *ast.FuncLit, info *types.Info) []*types.Var {
	seen := map[*types.Var]bool{}
	var out []*types.Var
	ast.Inspect(lit.Body, func(n ast.Node) bool {
		id, ok := n.(*ast.Ident)
		if !ok {
			return true
		}
		o, ok := info.Uses[id].(*types.Var)
		if !ok || o.IsField() || o.Pkg() == nil || o.Parent() == o.Pkg().Scope() {
			return true
		}
		if o.Pos() >= lit.Pos() && o.Pos() < lit.End() {
			return true
		}
		if !seen[o] {
			seen[o] = true
			out = append(out, o)
		}
		return true
	})
	return out
}

var _ = token.NoPos
