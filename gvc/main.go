package main

import (
	"encoding/json"
	"fmt"
	"os"

	"golang.org/x/tools/go/packages"
)

func main() {
	var ov struct{ Replace map[string]string }
	b, _ := os.ReadFile(os.Args[1])
	json.Unmarshal(b, &ov)
	overlay := map[string][]byte{}
	for k, v := range ov.Replace {
		c, err := os.ReadFile(v)
		if err != nil {
			panic(err)
		}
		overlay[k] = c
	}
	cfg := &packages.Config{
		Mode:    packages.NeedName | packages.NeedFiles | packages.NeedSyntax | packages.NeedTypes | packages.NeedTypesInfo | packages.NeedImports | packages.NeedDeps,
		Dir:     "/repo",
		Overlay: overlay,
		Env:     append(os.Environ(), "GODEBUG=goindex=0", "GOFLAGS=-mod=mod", "GOPROXY=off"),
	}
	pkgs, err := packages.Load(cfg, os.Args[2:]...)
	fmt.Println(err)
	for _, p := range pkgs {
		fmt.Println(p.PkgPath, len(p.Syntax), p.Errors)
	}
}
