package main

import (
	"flag"
	"fmt"
	"go/ast"
	"go/token"
	"go/types"
	"os"
	"os/exec"
	"path/filepath"
	"sort"
	"strings"

	"golang.org/x/tools/go/packages"
)

const repoMod = "github.com/grailbio/bigslice"

var verifDir = "/verif"
var repoDir = "/repo"

func init() {
	if d := os.Getenv("GVC_VERIF"); d != "" {
		verifDir = d
	}
	if d := os.Getenv("GVC_REPO"); d != "" {
		repoDir = d
	}
}

// makeOverlay writes the build overlay into dir and returns go/packages' overlay map and the ov.json path.
func makeOverlay(dir string) (map[string][]byte, string, error) {
	cmd := exec.Command(filepath.Join(verifDir, "overlay/mkoverlay.sh"), dir, repoDir)
	cmd.Env = append(os.Environ(), "GOFLAGS=-mod=mod", "GOPROXY=off")
	if out, err := cmd.CombinedOutput(); err != nil {
		return nil, "", fmt.Errorf("mkoverlay: %v: %s", err, out)
	}
	ovPath := filepath.Join(dir, "ov.json")
	m, err := readOverlay(ovPath)
	return m, ovPath, err
}

func loadPackages(patterns []string, overlay map[string][]byte) ([]*packages.Package, error) {
	cfg := &packages.Config{
		Mode:    packages.NeedName | packages.NeedFiles | packages.NeedSyntax | packages.NeedTypes | packages.NeedTypesInfo | packages.NeedImports | packages.NeedDeps,
		Dir:     repoDir,
		Overlay: overlay,
		Env:     append(os.Environ(), "GODEBUG=goindex=0", "GOFLAGS=-mod=mod", "GOPROXY=off", "GOSUMDB=off", "GOTOOLCHAIN=local"),
	}
	return packages.Load(cfg, patterns...)
}

func newVerifier(pkgs []*packages.Package) *Verifier {
	v := &Verifier{Pkgs: map[string]*packages.Package{}, PkgByName: map[string]*packages.Package{}, W: newWorld(), CS: newContractSet(),
		Units: map[string]*Unit{}, ghostVars: map[string]*SpecDecl{}, ghostFlds: map[string]*SpecDecl{}, missing: map[string]int{}}
	var walk func(p *packages.Package)
	walk = func(p *packages.Package) {
		if _, ok := v.Pkgs[p.PkgPath]; ok {
			return
		}
		v.Pkgs[p.PkgPath] = p
		if old, ok := v.PkgByName[p.Name]; !ok || (strings.HasPrefix(p.PkgPath, repoMod) && !strings.HasPrefix(old.PkgPath, repoMod)) || (p.PkgPath == "github.com/grailbio/base/errors") {
			v.PkgByName[p.Name] = p
		}
		if p.Fset != nil {
			v.Fset = p.Fset
		}
		for _, ip := range p.Imports {
			walk(ip)
		}
	}
	for _, p := range pkgs {
		walk(p)
	}
	// contracts: trusted first, then per-package files from the repo
	tf, _ := filepath.Glob(filepath.Join(verifDir, "trusted/*.contracts"))
	sort.Strings(tf)
	for _, f := range tf {
		v.CS.parseFile(f, repoMod)
	}
	var paths []string
	for path := range v.Pkgs {
		paths = append(paths, path)
	}
	sort.Strings(paths)
	for _, path := range paths {
		if !strings.HasPrefix(path, repoMod) {
			continue
		}
		dir := filepath.Join(repoDir, strings.TrimPrefix(strings.TrimPrefix(path, repoMod), "/"))
		f := filepath.Join(dir, "zz_verif_contracts.go")
		if _, err := os.Stat(f); err == nil {
			v.CS.parseFile(f, path)
		}
	}
	for _, d := range v.CS.Decls {
		switch d.Kind {
		case "ghostvar":
			v.ghostVars[d.Name] = d
		case "ghostfield":
			v.ghostFlds[d.Name] = d
		}
	}
	// units
	for _, path := range paths {
		if !strings.HasPrefix(path, repoMod) {
			continue
		}
		p := v.Pkgs[path]
		for _, f := range p.Syntax {
			initN := 0
			for _, d := range f.Decls {
				fd, ok := d.(*ast.FuncDecl)
				if !ok || fd.Body == nil {
					continue
				}
				obj, _ := p.TypesInfo.Defs[fd.Name].(*types.Func)
				if obj == nil {
					continue
				}
				key := funcKey(obj)
				if fd.Name.Name == "init" && fd.Recv == nil {
					initN++
					base := filepath.Base(p.Fset.Position(fd.Pos()).Filename)
					key = shortPkg(path) + ".init@" + strings.TrimSuffix(base, ".go")
					if initN > 1 {
						key += fmt.Sprint(initN)
					}
				}
				u := &Unit{Key: key, Pkg: p, Decl: fd, Body: fd.Body, FType: fd.Type, Sig: obj.Type().(*types.Signature), Obj: obj}
				ast.Inspect(fd.Body, func(n ast.Node) bool {
					if l, ok := n.(*ast.FuncLit); ok {
						u.Lits = append(u.Lits, l)
					}
					return true
				})
				v.Units[key] = u
				for i, l := range u.Lits {
					lk := fmt.Sprintf("%s$%d", key, i+1)
					sig, _ := p.TypesInfo.TypeOf(l).(*types.Signature)
					v.Units[lk] = &Unit{Key: lk, Pkg: p, Lit: l, Outer: u, Body: l.Body, FType: l.Type, Sig: sig}
				}
			}
		}
	}
	for k, c := range v.CS.Funcs {
		if u, ok := v.Units[k]; ok {
			u.Contract = c
		}
	}
	return v
}

// evalAxioms adds the axioms of the contract set to the world (once).
func (v *Verifier) evalAxioms() []string {
	t := v.newTr(&Unit{Key: "axioms"})
	t.cur = t.newBlock()
	t.cur.Env = Env{}
	t.root = t.cur
	for _, d := range v.CS.Decls {
		if d.Kind != "axiom" {
			continue
		}
		if _, loaded := v.Pkgs[d.PkgPath]; !loaded {
			continue // axiom about a package that is not part of this run
		}
		nerr := len(t.errs)
		f := v.closedFormula(t, d)
		if len(t.errs) > nerr {
			// an axiom that cannot be resolved in this run (e.g. mentions an unloaded package) is dropped:
			// fewer assumptions, never more
			t.errs = t.errs[:nerr]
			for k := range t.errSet {
				delete(t.errSet, k)
			}
			v.note("axiom " + d.Label + " not applicable in this run (unresolved names); dropped")
			continue
		}
		v.W.addAxiom(d.Label, f.S)
	}
	v.axiomVars = t.allVars
	return t.errs
}

// closedFormula evaluates a lemma/axiom body, universally closing its declared variables.
func (v *Verifier) closedFormula(t *tr, d *SpecDecl) Term {
	guard := d.Kind == "lemma" // lemmas are proved for in-range values; axioms are stated for all values
	pkg := v.Pkgs[d.PkgPath]
	sc := &specCtx{pkg: pkg, vars: map[string]Term{}, cur: Env{}, old: Env{}, qn: t.qn(), where: d.Where}
	var bvs []Term
	var invs []Term
	for _, p := range d.Vars {
		T := t.resolveType(p.Type, pkg)
		if T == nil {
			t.specErr(sc, "cannot resolve type of variable %s", p.Name)
			continue
		}
		bv := Term{S: sym(p.Name + "$v"), Sort: v.W.sortOf(T), T: T}
		sc.vars[p.Name] = bv
		bvs = append(bvs, bv)
		if guard {
			invs = append(invs, t.typeInv(bv, T, Env{}))
		}
	}
	body := t.spec(d.Expr, sc)
	return forallT(bvs, implies(and(invs...), body))
}

// lemmaUnit produces the obligation of a lemma: its closed formula must be valid given the axioms.
func (v *Verifier) lemmaResult(d *SpecDecl) *UnitResult {
	u := &Unit{Key: "lemma:" + d.Label}
	t := v.newTr(u)
	t.cur = t.newBlock()
	t.cur.Env = Env{}
	t.root = t.cur
	f := v.closedFormula(t, d)
	ob := &Obligation{Name: "lemma/" + d.Label, Kind: "lemma", Desc: d.Text, Block: t.cur, Index: 0, Unit: u.Key, Pos: d.Where}
	t.cur.Stmts = append(t.cur.Stmts, PStmt{Assert: true, F: f.S, Ob: ob})
	return &UnitResult{Unit: u, Obls: []*Obligation{ob}, Errs: t.errs, tr: t}
}

func (u *Unit) posOK() bool { return u.Body != nil }

func main() {
	if len(os.Args) < 2 {
		fmt.Fprintln(os.Stderr, "usage: gvc verify|check ...")
		os.Exit(2)
	}
	switch os.Args[1] {
	case "verify":
		cmdVerify(os.Args[2:])
	case "check":
		cmdCheck(os.Args[2:])
	default:
		fmt.Fprintln(os.Stderr, "unknown command", os.Args[1])
		os.Exit(2)
	}
}

// cmdVerify: developer tool — verify the named units and print the obligation table.
func cmdVerify(args []string) {
	fs := flag.NewFlagSet("verify", flag.ExitOnError)
	pk := fs.String("pkgs", ".", "comma separated package patterns (relative to the repo)")
	un := fs.String("units", "", "comma separated unit keys (or prefix*)")
	lem := fs.String("lemmas", "", "comma separated lemma labels (or *)")
	timeout := fs.Int("t", 10, "solver timeout (s)")
	dump := fs.String("dump", "", "directory to dump queries of failed obligations")
	nocache := fs.Bool("nocache", false, "ignore the verdict cache")
	debug := fs.Bool("debug", false, "panic on internal errors")
	verbose := fs.Bool("v", false, "print every obligation")
	fs.Parse(args)
	useCache = !*nocache
	os_debug = *debug
	tmp, _ := os.MkdirTemp("", "gvcov")
	defer os.RemoveAll(tmp)
	ov, _, err := makeOverlay(tmp)
	if err != nil {
		fmt.Fprintln(os.Stderr, err)
		os.Exit(2)
	}
	pkgs, err := loadPackages(strings.Split(*pk, ","), ov)
	if err != nil {
		fmt.Fprintln(os.Stderr, err)
		os.Exit(2)
	}
	for _, p := range pkgs {
		for _, e := range p.Errors {
			fmt.Fprintln(os.Stderr, "load:", e)
		}
	}
	v := newVerifier(pkgs)
	for _, e := range v.CS.Errs {
		fmt.Println("CONTRACT-ERROR", e)
	}
	for _, e := range v.evalAxioms() {
		fmt.Println("AXIOM-ERROR", e)
	}
	var results []*UnitResult
	keys := v.matchUnits(strings.Split(*un, ","))
	for _, k := range keys {
		results = append(results, v.generate(v.Units[k]))
	}
	for _, d := range v.CS.Decls {
		if d.Kind == "lemma" && matchAny(d.Label, strings.Split(*lem, ",")) {
			results = append(results, v.lemmaResult(d))
		}
	}
	solveAll(results, v.W.prelude, *timeout, 16, false)
	bad := 0
	for _, r := range results {
		for _, e := range r.Errs {
			fmt.Println("ERROR", e)
			bad++
		}
		for _, ob := range r.Obls {
			ok := obOK(ob)
			if !ok {
				bad++
			}
			if *verbose || !ok {
				st := "ok  "
				if !ok {
					st = "FAIL"
				}
				fmt.Printf("%s %-8s %-10s %6.2fs %s  [%s] %s\n", st, ob.Verdict, ob.Solver, ob.Time, ob.Name, ob.Pos, ob.Desc)
				if !ok && ob.Model != "" {
					fmt.Println("     ", strings.ReplaceAll(ob.Model, "\n", "\n      "))
				}
			}
			if !ok && *dump != "" {
				os.MkdirAll(*dump, 0o755)
				q := ob.Query
				if q == "" {
					q = r.buildQuery(ob, v.W.prelude(), true)
				}
				os.WriteFile(filepath.Join(*dump, strings.NewReplacer("/", "_", "*", "", "(", "", ")", "").Replace(ob.Name)+".smt2"), []byte(q), 0o644)
			}
		}
	}
	n := 0
	for _, r := range results {
		n += len(r.Obls)
	}
	fmt.Printf("units=%d obligations=%d failed=%d\n", len(results), n, bad)
	for k, c := range v.missing {
		fmt.Printf("MISSING-CONTRACT %s (%d call sites)\n", k, c)
	}
	for _, n := range v.Notes {
		fmt.Println("NOTE", n)
	}
	if bad > 0 {
		os.Exit(1)
	}
}

func matchAny(s string, pats []string) bool {
	for _, p := range pats {
		p = strings.TrimSpace(p)
		if p == "" {
			continue
		}
		if p == "*" || p == s {
			return true
		}
		if strings.HasSuffix(p, "*") && strings.HasPrefix(s, strings.TrimSuffix(p, "*")) {
			return true
		}
	}
	return false
}

func (v *Verifier) matchUnits(pats []string) []string {
	var keys []string
	for k := range v.Units {
		if matchAny(k, pats) {
			keys = append(keys, k)
		}
	}
	sort.Strings(keys)
	for _, p := range pats {
		p = strings.TrimSpace(p)
		if p == "" || strings.HasSuffix(p, "*") {
			continue
		}
		if _, ok := v.Units[p]; !ok {
			fmt.Println("ERROR no such unit:", p)
		}
	}
	return keys
}

var _ = token.NoPos
