package main

import (
	"context"
	"crypto/sha256"
	"encoding/hex"
	"encoding/json"
	"fmt"
	"os"
	"os/exec"
	"path/filepath"
	"strings"
	"sync"
	"time"
)

// buildQuery renders the SMT-LIB query for one obligation.
func (r *UnitResult) buildQuery(ob *Obligation, prelude string, models bool) string {
	var b strings.Builder
	if models {
		b.WriteString("(set-option :produce-models true)\n")
	}
	pre, axioms := prelude, ""
	if k := strings.Index(prelude, ";;AXIOMS\n"); k >= 0 {
		pre, axioms = prelude[:k], prelude[k:]
	}
	b.WriteString(pre)
	t := r.tr
	for _, v := range t.allVars {
		fmt.Fprintf(&b, "(declare-const %s %s)\n", v.at(0).S, v.Sort)
	}
	for _, v := range t.V.axiomVars {
		if _, dup := t.named[v.Name]; !dup {
			fmt.Fprintf(&b, "(declare-const %s %s)\n", v.at(0).S, v.Sort)
		}
	}
	b.WriteString(axioms)
	anc := ancestors(ob.Block)
	for _, a := range anc {
		for _, d := range a.Decls {
			b.WriteString(d)
			b.WriteString("\n")
		}
		fmt.Fprintf(&b, "(declare-const r_%d Bool)\n", a.ID)
		if a != ob.Block {
			fmt.Fprintf(&b, "(declare-const d_%d Bool)\n", a.ID)
		}
	}
	inAnc := map[*Block]bool{}
	for _, a := range anc {
		inAnc[a] = true
	}
	for _, a := range anc {
		if len(a.Preds) == 0 {
			fmt.Fprintf(&b, "(assert r_%d)\n", a.ID)
		} else {
			b.WriteString("(assert (= r_" + fmt.Sprint(a.ID) + " (or")
			for _, p := range a.Preds {
				fmt.Fprintf(&b, " d_%d", p.ID)
			}
			b.WriteString(" false)))\n")
		}
		if a == ob.Block {
			continue
		}
		fmt.Fprintf(&b, "(assert (= d_%d (and r_%d", a.ID, a.ID)
		for _, s := range a.Stmts {
			b.WriteString("\n  ")
			b.WriteString(s.F)
		}
		b.WriteString(")))\n")
	}
	fmt.Fprintf(&b, "(assert r_%d)\n", ob.Block.ID)
	for i, s := range ob.Block.Stmts {
		if i >= ob.Index {
			break
		}
		fmt.Fprintf(&b, "(assert %s)\n", s.F)
	}
	if !ob.Cover {
		fmt.Fprintf(&b, "(assert (not %s))\n", ob.Block.Stmts[ob.Index].F)
	}
	b.WriteString("(check-sat)\n")
	return b.String()
}

// ---- solvers ----

type solverSpec struct {
	Name string
	Args func(file string, timeoutS int) []string
	Pre  string
}

var solvers = []solverSpec{
	{Name: "z3-new", Args: func(f string, s int) []string { return []string{"z3-new", fmt.Sprintf("-T:%d", s), f} }},
	{Name: "z3", Args: func(f string, s int) []string { return []string{"z3", fmt.Sprintf("-T:%d", s), f} }},
	{Name: "cvc5", Pre: "(set-logic ALL)\n", Args: func(f string, s int) []string {
		return []string{"cvc5", fmt.Sprintf("--tlimit=%d", s*1000), "--full-saturate-quant", f}
	}},
}

type solveResult struct {
	Verdict string
	Solver  string
	Time    float64
	Out     string
}

func runSolver(ctx context.Context, sp solverSpec, query string, timeoutS int, dir string, tag string) solveResult {
	f := filepath.Join(dir, tag+"."+sp.Name+".smt2")
	q := query
	if sp.Pre != "" {
		// cvc5 wants set-logic before everything but after produce-models
		if strings.HasPrefix(q, "(set-option :produce-models true)\n") {
			q = "(set-option :produce-models true)\n" + sp.Pre + q[len("(set-option :produce-models true)\n"):]
		} else {
			q = sp.Pre + q
		}
	}
	if err := os.WriteFile(f, []byte(q), 0o644); err != nil {
		return solveResult{Verdict: "error", Solver: sp.Name, Out: err.Error()}
	}
	defer os.Remove(f)
	args := sp.Args(f, timeoutS)
	cctx, cancel := context.WithTimeout(ctx, time.Duration(timeoutS+5)*time.Second)
	defer cancel()
	start := time.Now()
	cmd := exec.CommandContext(cctx, args[0], args[1:]...)
	out, _ := cmd.CombinedOutput()
	el := time.Since(start).Seconds()
	first := strings.TrimSpace(strings.SplitN(string(out), "\n", 2)[0])
	v := "error"
	switch first {
	case "unsat", "sat", "unknown":
		v = first
	case "timeout":
		v = "timeout"
	default:
		if strings.Contains(string(out), "timeout") || cctx.Err() != nil {
			v = "timeout"
		}
	}
	if ctx.Err() != nil && v != "unsat" && v != "sat" {
		v = "cancelled"
	}
	return solveResult{Verdict: v, Solver: sp.Name, Time: el, Out: string(out)}
}

type cacheEntry struct {
	Verdict string  `json:"verdict"`
	Solver  string  `json:"solver"`
	Time    float64 `json:"time"`
}

var cacheDir = "/verif/.cache"
var cacheMu sync.Mutex
var useCache = true

func cacheGet(h string) (cacheEntry, bool) {
	if !useCache {
		return cacheEntry{}, false
	}
	b, err := os.ReadFile(filepath.Join(cacheDir, h[:2], h+".json"))
	if err != nil {
		return cacheEntry{}, false
	}
	var e cacheEntry
	if json.Unmarshal(b, &e) != nil {
		return cacheEntry{}, false
	}
	return e, true
}

func cachePut(h string, e cacheEntry) {
	if !useCache {
		return
	}
	d := filepath.Join(cacheDir, h[:2])
	os.MkdirAll(d, 0o755)
	b, _ := json.Marshal(e)
	os.WriteFile(filepath.Join(d, h+".json"), b, 0o644)
}

// discharge decides one obligation: first z3-new alone, then the other solvers in a race.
func discharge(ob *Obligation, query string, timeoutS int, tmp string, idx int, agreement bool) {
	if ob.Verdict != "" {
		return
	}
	sum := sha256.Sum256([]byte("v1|" + fmt.Sprint(timeoutS, agreement) + "|" + query))
	h := hex.EncodeToString(sum[:])
	if e, ok := cacheGet(h); ok && ((!ob.Cover && e.Verdict == "unsat") || (ob.Cover && e.Verdict == "sat")) {
		ob.Verdict, ob.Solver, ob.Time = e.Verdict, e.Solver+"(cached)", e.Time
		return
	}
	tag := fmt.Sprintf("q%d", idx)
	ctx := context.Background()
	if ob.Cover {
		ct := timeoutS
		if ct > 5 {
			ct = 5
		}
		r := runSolver(ctx, solvers[0], query, ct, tmp, tag)
		ob.Verdict, ob.Solver, ob.Time = r.Verdict, r.Solver, r.Time
		cachePut(h, cacheEntry{r.Verdict, r.Solver, r.Time})
		return
	}
	first := timeoutS
	if first > 4 && !agreement {
		first = 4
	}
	r := runSolver(ctx, solvers[0], query, first, tmp, tag)
	total := r.Time
	if r.Verdict == "unsat" && !agreement {
		ob.Verdict, ob.Solver, ob.Time = "unsat", r.Solver, total
		cachePut(h, cacheEntry{"unsat", r.Solver, total})
		return
	}
	results := []solveResult{r}
	cctx, cancel := context.WithCancel(ctx)
	ch := make(chan solveResult, 3)
	n := 0
	for i, sp := range solvers {
		if i == 0 && (r.Verdict == "sat" || first == timeoutS) {
			continue
		}
		n++
		go func(sp solverSpec) { ch <- runSolver(cctx, sp, query, timeoutS, tmp, tag) }(sp)
	}
	unsats := 0
	if r.Verdict == "unsat" {
		unsats = 1
	}
	var winner solveResult
	for i := 0; i < n; i++ {
		x := <-ch
		results = append(results, x)
		if x.Time > total {
			total = x.Time
		}
		if x.Verdict == "unsat" {
			unsats++
			winner = x
			if !agreement || unsats >= 2 {
				cancel()
			}
		}
	}
	cancel()
	if r.Verdict == "unsat" && winner.Solver == "" {
		winner = r
	}
	need := 1
	if agreement {
		need = 2
	}
	if unsats >= need {
		names := []string{}
		for _, x := range results {
			if x.Verdict == "unsat" {
				names = append(names, x.Solver)
			}
		}
		ob.Verdict, ob.Solver, ob.Time = "unsat", strings.Join(names, "+"), total
		cachePut(h, cacheEntry{"unsat", ob.Solver, total})
		return
	}
	// not discharged: report the most informative verdict
	best := results[0]
	for _, x := range results {
		if x.Verdict == "sat" {
			best = x
			break
		}
		if best.Verdict != "sat" && x.Verdict == "unknown" {
			best = x
		}
	}
	if unsats > 0 && agreement {
		best.Verdict = "no-agreement"
	}
	ob.Verdict, ob.Solver, ob.Time = best.Verdict, best.Solver, total
	var outs []string
	for _, x := range results {
		outs = append(outs, fmt.Sprintf("[%s: %s %.2fs] %s", x.Solver, x.Verdict, x.Time, firstLines(x.Out, 3)))
	}
	ob.Model = strings.Join(outs, "\n")
}

func firstLines(s string, n int) string {
	ls := strings.Split(strings.TrimSpace(s), "\n")
	if len(ls) > n {
		ls = ls[:n]
	}
	return strings.Join(ls, " | ")
}

// solveAll discharges all obligations of the unit results in parallel.
func solveAll(results []*UnitResult, prelude func() string, timeoutS int, par int, agreement bool) {
	tmp, err := os.MkdirTemp("", "gvc")
	if err != nil {
		panic(err)
	}
	defer os.RemoveAll(tmp)
	type job struct {
		r  *UnitResult
		ob *Obligation
		i  int
	}
	var jobs []job
	n := 0
	for _, r := range results {
		for _, ob := range r.Obls {
			jobs = append(jobs, job{r, ob, n})
			n++
		}
	}
	pre := prelude()
	var wg sync.WaitGroup
	ch := make(chan job)
	for w := 0; w < par; w++ {
		wg.Add(1)
		go func() {
			defer wg.Done()
			for j := range ch {
				if j.ob.Verdict != "" {
					continue
				}
				q := j.r.buildQuery(j.ob, pre, false)
				j.ob.Query = q
				discharge(j.ob, q, timeoutS, tmp, j.i, agreement)
				if obOK(j.ob) {
					j.ob.Query = "" // keep memory low
				}
			}
		}()
	}
	for _, j := range jobs {
		ch <- j
	}
	close(ch)
	wg.Wait()
}
