package main

import (
	"bufio"
	"encoding/json"
	"fmt"
	"go/types"
	"io"
	"os"
	"os/exec"
	"path/filepath"
	"strconv"
	"strings"
	"time"
)

// ---- S-expressions ----

type sexp struct {
	atom string
	list []*sexp
}

func (s *sexp) String() string {
	if s.list == nil {
		return s.atom
	}
	var parts []string
	for _, x := range s.list {
		parts = append(parts, x.String())
	}
	return "(" + strings.Join(parts, " ") + ")"
}

func parseSexps(src string) []*sexp {
	var out []*sexp
	pos := 0
	var parse func() *sexp
	skip := func() {
		for pos < len(src) && (src[pos] == ' ' || src[pos] == '\n' || src[pos] == '\t' || src[pos] == '\r') {
			pos++
		}
	}
	parse = func() *sexp {
		skip()
		if pos >= len(src) {
			return nil
		}
		if src[pos] == '(' {
			pos++
			s := &sexp{list: []*sexp{}}
			for {
				skip()
				if pos >= len(src) {
					return s
				}
				if src[pos] == ')' {
					pos++
					return s
				}
				s.list = append(s.list, parse())
			}
		}
		start := pos
		if src[pos] == '|' {
			pos++
			for pos < len(src) && src[pos] != '|' {
				pos++
			}
			pos++
			return &sexp{atom: src[start:pos]}
		}
		if src[pos] == '"' {
			pos++
			for pos < len(src) && src[pos] != '"' {
				pos++
			}
			pos++
			return &sexp{atom: src[start:pos]}
		}
		for pos < len(src) && !strings.ContainsRune(" \n\t\r()", rune(src[pos])) {
			pos++
		}
		return &sexp{atom: src[start:pos]}
	}
	for {
		skip()
		if pos >= len(src) {
			break
		}
		out = append(out, parse())
	}
	return out
}

func sexpInt(s *sexp) (int64, bool) {
	if s.list == nil {
		v, err := strconv.ParseInt(s.atom, 10, 64)
		return v, err == nil
	}
	if len(s.list) == 2 && s.list[0].atom == "-" {
		v, ok := sexpInt(s.list[1])
		return -v, ok
	}
	return 0, false
}

// ---- interactive solver session ----

type session struct {
	cmd *exec.Cmd
	in  io.WriteCloser
	out *bufio.Reader
}

func startZ3(query string) (*session, string, error) {
	cmd := exec.Command("z3-new", "-in", "-T:20")
	in, _ := cmd.StdinPipe()
	op, _ := cmd.StdoutPipe()
	cmd.Stderr = nil
	if err := cmd.Start(); err != nil {
		return nil, "", err
	}
	s := &session{cmd: cmd, in: in, out: bufio.NewReader(op)}
	io.WriteString(in, query)
	line, err := s.out.ReadString('\n')
	return s, strings.TrimSpace(line), err
}

// getValue asks for the values of terms and returns the parsed answer list.
func (s *session) getValue(terms []string) ([]*sexp, error) {
	io.WriteString(s.in, "(get-value ("+strings.Join(terms, " ")+"))\n")
	// read one balanced s-expression
	depth := 0
	var b strings.Builder
	started := false
	for {
		c, err := s.out.ReadByte()
		if err != nil {
			return nil, err
		}
		b.WriteByte(c)
		if c == '(' {
			depth++
			started = true
		} else if c == ')' {
			depth--
			if started && depth == 0 {
				break
			}
		}
		if !started && c == '\n' && strings.Contains(b.String(), "error") {
			return nil, fmt.Errorf("solver: %s", b.String())
		}
	}
	xs := parseSexps(b.String())
	if len(xs) != 1 {
		return nil, fmt.Errorf("bad get-value answer")
	}
	var vals []*sexp
	for _, p := range xs[0].list {
		if len(p.list) == 2 {
			vals = append(vals, p.list[1])
		}
	}
	return vals, nil
}

func (s *session) close() {
	io.WriteString(s.in, "(exit)\n")
	s.in.Close()
	done := make(chan struct{})
	go func() { s.cmd.Wait(); close(done) }()
	select {
	case <-done:
	case <-time.After(2 * time.Second):
		s.cmd.Process.Kill()
	}
}

// ---- building a concrete call from a model ----

type replayArg struct {
	Name string `json:"name"`
	Type string `json:"type"`
	Go   string `json:"go"` // Go expression constructing the value
}

// goValue builds a Go expression for the model value of term x of Go type T.
func (rp *replayer) goValue(x Term, T types.Type) (string, bool) {
	switch u := T.Underlying().(type) {
	case *types.Basic:
		switch {
		case u.Info()&types.IsInteger != 0:
			vs, err := rp.s.getValue([]string{x.S})
			if err != nil || len(vs) != 1 {
				return "", false
			}
			n, ok := sexpInt(vs[0])
			if !ok {
				return "", false
			}
			return fmt.Sprintf("%s(%d)", rp.typeName(T), n), true
		case u.Info()&types.IsBoolean != 0:
			vs, err := rp.s.getValue([]string{x.S})
			if err != nil || len(vs) != 1 {
				return "", false
			}
			return fmt.Sprintf("%s(%s)", rp.typeName(T), vs[0].String()), true
		case u.Info()&types.IsString != 0:
			vs, err := rp.s.getValue([]string{x.S, "(strlen " + x.S + ")"})
			if err != nil || len(vs) != 2 {
				return "", false
			}
			n, ok := sexpInt(vs[1])
			if !ok || n > 1<<16 {
				return "", false
			}
			id := vs[0].String()
			k, seen := rp.strIDs[id]
			if !seen {
				k = len(rp.strIDs)
				rp.strIDs[id] = k
			}
			// distinct abstract strings get distinct contents of the required length (when the length allows)
			s := strconv.Itoa(k)
			for int64(len(s)) < n {
				s = "s" + s
			}
			if int64(len(s)) > n {
				s = s[int64(len(s))-n:]
			}
			return fmt.Sprintf("%s(%q)", rp.typeName(T), s), true
		}
	case *types.Slice:
		vs, err := rp.s.getValue([]string{slArr(x).S, slOff(x).S, slLen(x).S, slCap(x).S})
		if err != nil || len(vs) != 4 {
			return "", false
		}
		arr, _ := sexpInt(vs[0])
		off, _ := sexpInt(vs[1])
		ln, _ := sexpInt(vs[2])
		cp, _ := sexpInt(vs[3])
		if arr == 0 {
			return fmt.Sprintf("%s(nil)", rp.typeName(T)), true
		}
		if cp > 4096 || off > 4096 || ln < 0 || cp < ln {
			return "", false
		}
		es := rp.t.V.W.sortOf(u.Elem())
		eT := types.Type(u.Elem())
		h := rp.t.elemHeapT(eT, es)
		var elems []string
		for i := int64(0); i < cp; i++ {
			e := sel(sel(h.at(0), slArr(x)), intLit(off+i))
			e.T = u.Elem()
			g, ok := rp.goValue(e, u.Elem())
			if !ok {
				return "", false
			}
			elems = append(elems, g)
		}
		return fmt.Sprintf("%s{%s}[:%d:%d]", rp.typeName(T), strings.Join(elems, ", "), ln, cp), true
	}
	return "", false
}

type replayer struct {
	t      *tr
	s      *session
	strIDs map[string]int
	pkg    *types.Package
}

func (rp *replayer) typeName(T types.Type) string {
	return types.TypeString(T, func(p *types.Package) string {
		if p == rp.pkg {
			return ""
		}
		return p.Name()
	})
}

// tryReplay extracts a model for the failed obligation, runs the real function on it and records what happened.
// It returns true when the real code exhibits the failure.
func tryReplay(out *runOutcome, ob *Obligation, rep map[string]interface{}, ovPath string) bool {
	var ur *UnitResult
	for _, r := range out.results {
		if r.Unit.Key == ob.Unit {
			ur = r
		}
	}
	if ur == nil || ur.Unit.Decl == nil || ur.Unit.Pkg == nil {
		rep["replay"] = "not attempted: unit is not a declared function"
		return false
	}
	u := ur.Unit
	t := ur.tr
	if u.Sig.Recv() != nil {
		rep["replay"] = "not attempted: methods need a receiver builder"
		return false
	}
	q := ur.buildQuery(ob, out.v.W.prelude(), true)
	s, verdict, err := startZ3(q)
	if err != nil {
		rep["replay"] = "solver session failed: " + err.Error()
		return false
	}
	defer s.close()
	if verdict != "sat" {
		rep["replay"] = "no model: interactive solver said " + verdict
		return false
	}
	rp := &replayer{t: t, s: s, strIDs: map[string]int{}, pkg: u.Pkg.Types}
	var args []replayArg
	var argExprs []string
	for i := 0; i < u.Sig.Params().Len(); i++ {
		p := u.Sig.Params().At(i)
		pv, ok := t.vars[p]
		if !ok {
			rep["replay"] = "not attempted: unnamed parameter"
			return false
		}
		g, ok := rp.goValue(pv.at(0), p.Type())
		if !ok {
			rep["replay"] = fmt.Sprintf("not attempted: cannot build a value of type %s for parameter %s from the model", p.Type(), p.Name())
			return false
		}
		args = append(args, replayArg{p.Name(), p.Type().String(), g})
		argExprs = append(argExprs, g)
	}
	if u.Sig.Variadic() && len(argExprs) > 0 {
		argExprs[len(argExprs)-1] += "..."
	}
	rep["inputs"] = args
	rep["function"] = u.Key
	rep["package_dir"] = strings.TrimPrefix(strings.TrimPrefix(u.Pkg.PkgPath, repoMod), "/")
	rep["call"] = fmt.Sprintf("%s(%s)", u.Decl.Name.Name, strings.Join(argExprs, ", "))
	rep["replay_formula"] = ob.ReplayF
	rep["result_sorts"] = resultSorts(t, u)
	res := runReplayCall(rep, ovPath)
	rep["observed"] = res
	return judgeReplay(ob, rep, res, out.v, t)
}

func resultSorts(t *tr, u *Unit) []string {
	var out []string
	for i := 0; i < u.Sig.Results().Len(); i++ {
		out = append(out, t.V.W.sortOf(u.Sig.Results().At(i).Type()))
	}
	return out
}

// runReplayCall runs the real function through an overlay-injected in-package test and returns what it observed.
func runReplayCall(rep map[string]interface{}, ovPath string) map[string]interface{} {
	pkgDir, _ := rep["package_dir"].(string)
	call, _ := rep["call"].(string)
	fn, _ := rep["function"].(string)
	_ = fn
	var pkgName string
	// package name: read from any go file in the dir
	files, _ := filepath.Glob(filepath.Join(repoDir, pkgDir, "*.go"))
	for _, f := range files {
		if strings.HasSuffix(f, "_test.go") {
			continue
		}
		b, _ := os.ReadFile(f)
		for _, l := range strings.Split(string(b), "\n") {
			if strings.HasPrefix(l, "package ") {
				pkgName = strings.Fields(l)[1]
				break
			}
		}
		if pkgName != "" {
			break
		}
	}
	src := fmt.Sprintf(`package %s

import (
	"encoding/json"
	"fmt"
	"os"
	"testing"
)

func TestGvcReplay(t *testing.T) {
	out := map[string]interface{}{}
	func() {
		defer func() {
			if r := recover(); r != nil {
				out["panic"] = fmt.Sprint(r)
			}
		}()
		rs := gvcCollect(%s)
		out["results"] = rs
	}()
	b, _ := json.Marshal(out)
	os.WriteFile(os.Getenv("GVC_REPLAY_OUT"), b, 0o644)
}

func gvcCollect(xs ...interface{}) []string {
	var r []string
	for _, x := range xs {
		r = append(r, fmt.Sprintf("%%#v", x))
	}
	return r
}
`, pkgName, call)
	tmp, _ := os.MkdirTemp("", "gvcreplay")
	defer os.RemoveAll(tmp)
	testFile := filepath.Join(tmp, "zz_gvc_replay_test.go")
	os.WriteFile(testFile, []byte(src), 0o644)
	var ov struct{ Replace map[string]string }
	b, _ := os.ReadFile(ovPath)
	json.Unmarshal(b, &ov)
	if ov.Replace == nil {
		return map[string]interface{}{"error": "no overlay"}
	}
	ov.Replace[filepath.Join(repoDir, pkgDir, "zz_gvc_replay_test.go")] = testFile
	nb, _ := json.Marshal(ov)
	np := filepath.Join(tmp, "ov.json")
	os.WriteFile(np, nb, 0o644)
	outFile := filepath.Join(tmp, "out.json")
	cmd := exec.Command("go", "test", "-overlay", np, "-vet=off", "-count=1", "-timeout", "60s", "-run", "^TestGvcReplay$", "./"+pkgDir)
	cmd.Dir = repoDir
	cmd.Env = append(os.Environ(), "GODEBUG=goindex=0", "GOFLAGS=-mod=mod", "GOPROXY=off", "GOSUMDB=off", "GOTOOLCHAIN=local", "GVC_REPLAY_OUT="+outFile)
	outp, err := cmd.CombinedOutput()
	res := map[string]interface{}{}
	if ob, e2 := os.ReadFile(outFile); e2 == nil {
		json.Unmarshal(ob, &res)
	} else {
		res["error"] = fmt.Sprintf("replay run failed: %v: %s", err, tail(string(outp), 1500))
	}
	return res
}

// judgeReplay decides whether the observed behaviour of the real code exhibits the failed obligation.
func judgeReplay(ob *Obligation, rep map[string]interface{}, res map[string]interface{}, v *Verifier, t *tr) bool {
	if _, bad := res["error"]; bad {
		rep["replay"] = "replay could not run"
		return false
	}
	_, panicked := res["panic"]
	switch {
	case strings.HasPrefix(ob.Kind, "safety") || ob.Kind == "overflow" || strings.HasPrefix(ob.Kind, "nopanic"):
		if ob.Kind == "overflow" {
			rep["replay"] = "overflow is silent in Go; the model input is recorded, the run cannot observe it"
			return false
		}
		rep["replay"] = fmt.Sprintf("real code panicked: %v", panicked)
		return panicked
	case strings.HasPrefix(ob.Kind, "panics_if/panics-only-if"):
		rep["replay"] = fmt.Sprintf("real code panicked outside its declared panic condition: %v", panicked)
		return panicked
	case strings.HasPrefix(ob.Kind, "panics_if/returns"):
		rep["replay"] = fmt.Sprintf("real code returned normally although the panic condition holds: %v", !panicked)
		return !panicked
	case ob.Kind == "post":
		if panicked {
			rep["replay"] = "real code panicked on the model input"
			return false
		}
		if ob.ReplayF == "" {
			rep["replay"] = "postcondition reads the post-state heap; concrete evaluation not supported for this unit"
			return false
		}
		rs, _ := res["results"].([]interface{})
		sorts, _ := rep["result_sorts"].([]string)
		// evaluate the same postcondition formula on the concrete inputs and observed results
		var b strings.Builder
		b.WriteString(v.W.prelude())
		for _, vv := range t.allVars {
			fmt.Fprintf(&b, "(declare-const %s %s)\n", vv.at(0).S, vv.Sort)
		}
		ins, _ := rep["inputs"].([]replayArg)
		for _, a := range ins {
			// scalar inputs only: bind entry symbols
			lit, ok := goLitToSMT(a.Go)
			if !ok {
				rep["replay"] = "cannot bind non-scalar input in the concrete evaluation"
				return false
			}
			for _, vv := range t.paramVars {
				if vv.Name == "L$"+a.Name {
					fmt.Fprintf(&b, "(assert (= %s %s))\n", vv.at(0).S, lit)
				}
			}
		}
		for i, r := range rs {
			if i >= len(sorts) {
				break
			}
			lit, ok := goLitToSMT(fmt.Sprint(r))
			if !ok {
				rep["replay"] = "cannot bind non-scalar result in the concrete evaluation"
				return false
			}
			fmt.Fprintf(&b, "(declare-const rr$%d %s)\n(assert (= rr$%d %s))\n", i, sorts[i], i, lit)
		}
		fmt.Fprintf(&b, "(assert (not %s))\n(check-sat)\n", ob.ReplayF)
		tmp, _ := os.MkdirTemp("", "gvcj")
		defer os.RemoveAll(tmp)
		r := runSolver(ctxBackground(), solvers[0], b.String(), 10, tmp, "judge")
		rep["concrete_evaluation"] = r.Verdict
		if r.Verdict == "sat" {
			rep["replay"] = "postcondition is false on the real code's result for the model input"
			return true
		}
		rep["replay"] = "postcondition holds on the real code's result for this input (" + r.Verdict + ")"
		return false
	}
	rep["replay"] = "no replay judge for obligation kind " + ob.Kind
	return false
}

// goLitToSMT converts literals like int(5), int(-3), bool(true), 7, true to SMT.
func goLitToSMT(g string) (string, bool) {
	g = strings.TrimSpace(g)
	if i := strings.IndexByte(g, '('); i >= 0 && strings.HasSuffix(g, ")") && !strings.Contains(g[:i], " ") && !strings.HasPrefix(g, "(") {
		g = g[i+1 : len(g)-1]
	}
	if g == "true" || g == "false" {
		return g, true
	}
	if n, err := strconv.ParseInt(g, 0, 64); err == nil {
		return intLit(n).S, true
	}
	if n, err := strconv.ParseUint(g, 0, 64); err == nil {
		return fmt.Sprintf("%d", n), true
	}
	return "", false
}

// doReplay re-runs a replay file written by an earlier check.
func doReplay(id, path string) int {
	b, err := os.ReadFile(path)
	if err != nil {
		fmt.Fprintln(os.Stderr, err)
		return 2
	}
	var rep map[string]interface{}
	if err := json.Unmarshal(b, &rep); err != nil {
		fmt.Fprintln(os.Stderr, err)
		return 2
	}
	fmt.Printf("obligation: %v\nreason/description: %v %v\n", rep["obligation"], rep["reason"], rep["description"])
	if _, ok := rep["call"]; !ok {
		fmt.Println("this replay file carries no executable input (no-failing-input-found); solver output:")
		fmt.Println(rep["solver_output"])
		return 1
	}
	tmp, _ := os.MkdirTemp("", "gvcov")
	defer os.RemoveAll(tmp)
	_, ovPath, err := makeOverlay(tmp)
	if err != nil {
		fmt.Fprintln(os.Stderr, err)
		return 2
	}
	res := runReplayCall(rep, ovPath)
	jb, _ := json.MarshalIndent(res, "", " ")
	fmt.Printf("call: %v\nobserved now: %s\nobserved when recorded: %v\n", rep["call"], jb, rep["observed"])
	return 1
}
