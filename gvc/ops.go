package main

import (
	"fmt"
	"go/constant"
	"go/token"
	"go/types"
	"math/big"
	"strings"
)

// ---- type helpers ----

func isInteger(t types.Type) bool {
	b, ok := t.Underlying().(*types.Basic)
	return ok && b.Info()&types.IsInteger != 0
}
func isUnsigned(t types.Type) bool {
	b, ok := t.Underlying().(*types.Basic)
	return ok && b.Info()&types.IsUnsigned != 0
}
func isString(t types.Type) bool {
	b, ok := t.Underlying().(*types.Basic)
	return ok && b.Info()&types.IsString != 0
}
func isFloat(t types.Type) bool {
	b, ok := t.Underlying().(*types.Basic)
	return ok && b.Info()&(types.IsFloat|types.IsComplex) != 0
}
func isBoolean(t types.Type) bool {
	b, ok := t.Underlying().(*types.Basic)
	return ok && b.Info()&types.IsBoolean != 0
}
func isInterface(t types.Type) bool {
	_, ok := t.Underlying().(*types.Interface)
	return ok
}
func isRefLike(t types.Type) bool {
	switch u := t.Underlying().(type) {
	case *types.Pointer, *types.Map, *types.Chan, *types.Signature, *types.Interface:
		return true
	case *types.Basic:
		return u.Kind() == types.UnsafePointer || u.Kind() == types.UntypedNil
	}
	return false
}

// intRange returns the inclusive range of an integer type (int is 64 bit).
func intRange(t types.Type) (lo, hi *big.Int, ok bool) {
	b, isb := t.Underlying().(*types.Basic)
	if !isb || b.Info()&types.IsInteger == 0 {
		return nil, nil, false
	}
	bits := 64
	switch b.Kind() {
	case types.Int8, types.Uint8:
		bits = 8
	case types.Int16, types.Uint16:
		bits = 16
	case types.Int32, types.Uint32:
		bits = 32
	case types.UntypedInt, types.UntypedRune:
		return nil, nil, false
	}
	one := big.NewInt(1)
	if b.Info()&types.IsUnsigned != 0 {
		hi = new(big.Int).Sub(new(big.Int).Lsh(one, uint(bits)), one)
		return big.NewInt(0), hi, true
	}
	hi = new(big.Int).Sub(new(big.Int).Lsh(one, uint(bits-1)), one)
	lo = new(big.Int).Neg(new(big.Int).Lsh(one, uint(bits-1)))
	return lo, hi, true
}

func inRange(x Term, t types.Type) Term {
	lo, hi, ok := intRange(t)
	if !ok {
		return tTrue
	}
	return and(le(bigLit(lo), x), le(x, bigLit(hi)))
}

// wrapTo converts a mathematical integer to the value it has in integer type t.
func wrapTo(x Term, t types.Type) Term {
	lo, hi, ok := intRange(t)
	if !ok {
		return x
	}
	size := new(big.Int).Add(new(big.Int).Sub(hi, lo), big.NewInt(1))
	var r Term
	if lo.Sign() == 0 {
		r = app("mod", SInt, x, bigLit(size))
	} else {
		r = sub(app("mod", SInt, sub(x, bigLit(lo)), bigLit(size)), bigLit(new(big.Int).Neg(lo)))
		// (x - lo) mod size + lo
		r = add(app("mod", SInt, sub(x, bigLit(lo)), bigLit(size)), bigLit(lo))
	}
	r.T = t
	return r
}

// ---- value invariants ----

// typeInv is the invariant every value of Go type T satisfies (ranges, slice header shape, allocated refs).
func (t *tr) typeInv(x Term, T types.Type, env Env) Term {
	return t.typeInvDepth(x, T, env, 0)
}

func (t *tr) typeInvDepth(x Term, T types.Type, env Env, depth int) Term {
	if T == nil {
		return tTrue
	}
	switch u := T.Underlying().(type) {
	case *types.Basic:
		if u.Info()&types.IsInteger != 0 {
			return inRange(x, T)
		}
		if u.Kind() == types.UnsafePointer {
			return tTrue
		}
		return tTrue
	case *types.Pointer:
		// interior field addresses are negative; allocated objects are in (0, allocTop]
		top := t.readIn(env, t.allocTop)
		return le(x, top)
	case *types.Map, *types.Chan:
		top := t.readIn(env, t.allocTop)
		return and(le(intLit(0), x), le(x, top))
	case *types.Interface:
		// a non-nil value of interface type T has a dynamic type that implements T
		if u.NumMethods() == 0 {
			return tTrue
		}
		W := t.V.W
		W.declFun("dyntype", []string{SInt}, SInt)
		name := "implements$" + typeKey(T)
		W.declFun(name, []string{SInt}, SBool)
		return or(eq(x, intLit(0)), app(sym(name), SBool, app("dyntype", SInt, x)))
	case *types.Signature:
		return tTrue
	case *types.Slice:
		top := t.readIn(env, t.allocTop)
		return and(le(intLit(0), slArr(x)), le(slArr(x), top), le(intLit(0), slOff(x)), le(intLit(0), slLen(x)), le(slLen(x), slCap(x)),
			implies(eq(slArr(x), intLit(0)), eq(slCap(x), intLit(0))))
	case *types.Struct:
		if depth > 2 {
			return tTrue
		}
		ss := t.V.W.structSortOf(T, u)
		var cs []Term
		for i, f := range ss.Fields {
			fx := app(ss.selName(i), f.Sort, x)
			cs = append(cs, t.typeInvDepth(fx, f.T, env, depth+1))
		}
		return and(cs...)
	}
	return tTrue
}

// ---- heaps ----

func (t *tr) fieldHeap(st types.Type, s *types.Struct, idx int) *Var {
	ss := t.V.W.structSortOf(st, s)
	f := ss.Fields[idx]
	name := "H$" + strings.TrimPrefix(strings.Trim(ss.Name, "|"), "S_") + "." + f.Name
	v := t.newVar(name, arrSort(SInt, f.Sort), nil, true)
	return v
}

func (t *tr) ptrHeap(elem types.Type) *Var {
	srt := t.V.W.sortOf(elem)
	name := "P$" + typeKey(elem)
	return t.newVar(name, arrSort(SInt, srt), nil, true)
}

// elemHeapT is the heap of slice elements of Go type elemT (slices of different element types cannot alias).
func (t *tr) elemHeapT(elemT types.Type, elemSort string) *Var {
	return t.newVar("E$"+typeKey(elemT), arrSort(SInt, arrSort(SInt, elemSort)), nil, true)
}

func (t *tr) mapHeaps(m *types.Map) (dom, val, ln *Var) {
	ks, vs := t.V.W.sortOf(m.Key()), t.V.W.sortOf(m.Elem())
	// keyed by the Go key and element types: maps of different types cannot alias
	key := typeKey(m.Key()) + "$" + typeKey(m.Elem())
	dom = t.newVar("MD$"+key, arrSort(SInt, arrSort(ks, SBool)), nil, true)
	val = t.newVar("MV$"+key, arrSort(SInt, arrSort(ks, vs)), nil, true)
	ln = t.newVar("ML$", arrSort(SInt, SInt), nil, true)
	return
}

func (t *tr) ghostFieldHeap(d *SpecDecl, sort string) *Var {
	return t.newVar("GF$"+d.Owner+"."+d.Name, arrSort(SInt, sort), nil, true)
}

// ---- term-level operations shared by code and spec evaluation ----

func derefStruct(T types.Type) (named types.Type, st *types.Struct, isPtr bool) {
	if T == nil {
		return nil, nil, false
	}
	if p, ok := T.Underlying().(*types.Pointer); ok {
		if s, ok := p.Elem().Underlying().(*types.Struct); ok {
			return p.Elem(), s, true
		}
		return nil, nil, true
	}
	if s, ok := T.Underlying().(*types.Struct); ok {
		return T, s, false
	}
	return nil, nil, false
}

// loadFieldIdx reads field idx of x (struct value or pointer to struct) in env.
func (t *tr) loadFieldIdx(env Env, x Term, idx int) (Term, bool) {
	named, st, isPtr := derefStruct(x.T)
	if st == nil {
		return Term{}, false
	}
	ss := t.V.W.structSortOf(named, st)
	f := ss.Fields[idx]
	var r Term
	if isPtr {
		h := t.fieldHeap(named, st, idx)
		r = sel(t.readIn(env, h), x)
	} else {
		r = app(ss.selName(idx), f.Sort, x)
	}
	r.T = f.T
	return r, true
}

func fieldIndexByName(st *types.Struct, name string) int {
	for i := 0; i < st.NumFields(); i++ {
		if st.Field(i).Name() == name {
			return i
		}
	}
	return -1
}

// findFieldPath finds a (possibly promoted) field by name, returning the index path.
func findFieldPath(T types.Type, name string, depth int) []int {
	_, st, _ := derefStruct(T)
	if st == nil || depth > 3 {
		return nil
	}
	if i := fieldIndexByName(st, name); i >= 0 {
		return []int{i}
	}
	for i := 0; i < st.NumFields(); i++ {
		f := st.Field(i)
		if f.Embedded() {
			if p := findFieldPath(f.Type(), name, depth+1); p != nil {
				return append([]int{i}, p...)
			}
		}
	}
	return nil
}

// updateField returns struct value x with field idx replaced by v.
func (t *tr) updateField(x Term, idx int, v Term) Term {
	named, st, _ := derefStruct(x.T)
	ss := t.V.W.structSortOf(named, st)
	args := make([]Term, len(ss.Fields))
	for i, f := range ss.Fields {
		if i == idx {
			args[i] = v
		} else {
			args[i] = app(ss.selName(i), f.Sort, x)
		}
	}
	r := app(ss.ctor(), ss.Name, args...)
	if len(args) == 0 {
		r = Term{S: ss.ctor(), Sort: ss.Name}
	}
	r.T = x.T
	return r
}

// loadStruct assembles the struct value stored at pointer p.
func (t *tr) loadStruct(env Env, p Term, named types.Type, st *types.Struct) Term {
	ss := t.V.W.structSortOf(named, st)
	args := make([]Term, len(ss.Fields))
	for i := range ss.Fields {
		h := t.fieldHeap(named, st, i)
		args[i] = sel(t.readIn(env, h), p)
	}
	var r Term
	if len(args) == 0 {
		r = Term{S: ss.ctor(), Sort: ss.Name}
	} else {
		r = app(ss.ctor(), ss.Name, args...)
	}
	r.T = named
	return r
}

func (t *tr) lenOf(env Env, x Term) (Term, bool) {
	if x.T == nil {
		if x.Sort == SSlice {
			return slLen(x), true
		}
		if x.Sort == SStr {
			return app("strlen", SInt, x), true
		}
		return Term{}, false
	}
	var r Term
	switch u := x.T.Underlying().(type) {
	case *types.Slice:
		r = slLen(x)
	case *types.Basic:
		if u.Info()&types.IsString == 0 {
			return Term{}, false
		}
		r = app("strlen", SInt, x)
	case *types.Array:
		r = intLit(u.Len())
	case *types.Map:
		_, _, ln := t.mapHeaps(u)
		r = ite(eq(x, intLit(0)), intLit(0), sel(t.readIn(env, ln), x)) // len of a nil map is 0
	case *types.Pointer:
		if a, ok := u.Elem().Underlying().(*types.Array); ok {
			r = intLit(a.Len())
		} else {
			return Term{}, false
		}
	case *types.Chan:
		t.V.W.declFun("chanlen", []string{SInt}, SInt)
		r = app("chanlen", SInt, x)
	default:
		return Term{}, false
	}
	r.T = types.Typ[types.Int]
	return r, true
}

// elemAt reads a[i] for slice / array / string (no bounds obligations here).
func (t *tr) elemAt(env Env, a, i Term) (Term, bool) {
	if a.T == nil {
		return Term{}, false
	}
	switch u := a.T.Underlying().(type) {
	case *types.Slice:
		es := t.V.W.sortOf(u.Elem())
		eT := types.Type(u.Elem())
		h := t.elemHeapT(eT, es)
		r := sel(sel(t.readIn(env, h), slArr(a)), add(slOff(a), i))
		r.T = u.Elem()
		return r, true
	case *types.Array:
		r := sel(a, i)
		r.T = u.Elem()
		return r, true
	case *types.Pointer:
		if arr, ok := u.Elem().Underlying().(*types.Array); ok {
			h := t.ptrHeap(u.Elem())
			r := sel(sel(t.readIn(env, h), a), i)
			r.T = arr.Elem()
			return r, true
		}
	case *types.Basic:
		if u.Info()&types.IsString != 0 {
			t.V.W.declFun("strat", []string{SStr, SInt}, SInt)
			r := app("strat", SInt, a, i)
			r.T = types.Typ[types.Uint8]
			return r, true
		}
	case *types.Map:
		_, val, _ := t.mapHeaps(u)
		r := sel(sel(t.readIn(env, val), a), i)
		r.T = u.Elem()
		return r, true
	}
	return Term{}, false
}

func pow2(n uint) *big.Int { return new(big.Int).Lsh(big.NewInt(1), n) }

func isPow2Minus1(v *big.Int) (uint, bool) {
	if v.Sign() <= 0 {
		return 0, false
	}
	p := new(big.Int).Add(v, big.NewInt(1))
	if p.BitLen() > 0 && new(big.Int).And(p, v).Sign() == 0 {
		return uint(p.BitLen() - 1), true
	}
	return 0, false
}

func constInt(x Term) (*big.Int, bool) {
	s := x.S
	neg := false
	if strings.HasPrefix(s, "(- ") && strings.HasSuffix(s, ")") {
		neg = true
		s = s[3 : len(s)-1]
	}
	v, ok := new(big.Int).SetString(s, 10)
	if !ok {
		return nil, false
	}
	if neg {
		v.Neg(v)
	}
	return v, true
}

// binop computes a op b on terms. resT is the Go result type (may be nil in specs).
// safety receives divisor-nonzero obligations when non-nil.
func (t *tr) binop(op token.Token, a, b Term, resT types.Type, pos token.Pos, code bool) Term {
	W := t.V.W
	switch op {
	case token.LAND:
		return and(a, b)
	case token.LOR:
		return or(a, b)
	case token.EQL, token.NEQ:
		if a.Sort == SSlice && b.Sort == SInt && b.S == "0" {
			a = slArr(a)
		} else if b.Sort == SSlice && a.Sort == SInt && a.S == "0" {
			b = slArr(b)
		}
	}
	switch op {
	case token.EQL:
		if a.Sort != b.Sort {
			t.errorf(pos, "== on different sorts %s / %s (%s, %s)", a.Sort, b.Sort, a.S, b.S)
			return tTrue
		}
		return eq(a, b)
	case token.NEQ:
		if a.Sort != b.Sort {
			t.errorf(pos, "!= on different sorts %s / %s (%s, %s)", a.Sort, b.Sort, a.S, b.S)
			return tTrue
		}
		return neq(a, b)
	}
	if a.Sort == SStr {
		switch op {
		case token.ADD:
			W.declFun("strcat", []string{SStr, SStr}, SStr)
			W.addAxiom("strcat-len", "(forall ((a Str) (b Str)) (= (strlen (strcat a b)) (+ (strlen a) (strlen b))))")
			r := app("strcat", SStr, a, b)
			r.T = a.T
			return r
		case token.LSS, token.GTR, token.LEQ, token.GEQ:
			W.declFun("strlt", []string{SStr, SStr}, SBool)
			W.addAxiom("strlt-irrefl", "(forall ((a Str)) (not (strlt a a)))")
			W.addAxiom("strlt-trans", "(forall ((a Str) (b Str) (c Str)) (=> (and (strlt a b) (strlt b c)) (strlt a c)))")
			W.addAxiom("strlt-total", "(forall ((a Str) (b Str)) (or (strlt a b) (= a b) (strlt b a)))")
			switch op {
			case token.LSS:
				return app("strlt", SBool, a, b)
			case token.GTR:
				return app("strlt", SBool, b, a)
			case token.LEQ:
				return not(app("strlt", SBool, b, a))
			default:
				return not(app("strlt", SBool, a, b))
			}
		}
	}
	if a.Sort == SFlt {
		fn := map[token.Token]string{token.ADD: "fadd", token.SUB: "fsub", token.MUL: "fmul", token.QUO: "fdiv"}
		if f, ok := fn[op]; ok {
			W.declFun(f, []string{SFlt, SFlt}, SFlt)
			r := app(f, SFlt, a, b)
			r.T = a.T
			return r
		}
		switch op {
		case token.LSS, token.GTR, token.LEQ, token.GEQ:
			W.declFun("flt", []string{SFlt, SFlt}, SBool)
			W.declFun("fle", []string{SFlt, SFlt}, SBool)
			switch op {
			case token.LSS:
				return app("flt", SBool, a, b)
			case token.GTR:
				return app("flt", SBool, b, a)
			case token.LEQ:
				return app("fle", SBool, a, b)
			default:
				return app("fle", SBool, b, a)
			}
		}
	}
	if a.Sort == SBool && b.Sort == SBool {
		switch op {
		case token.AND:
			return and(a, b)
		case token.OR:
			return or(a, b)
		case token.XOR:
			return app("xor", SBool, a, b)
		}
	}
	if a.Sort != SInt || b.Sort != SInt {
		t.errorf(pos, "unsupported operands for %s: %s:%s, %s:%s", op, a.S, a.Sort, b.S, b.Sort)
		return Term{S: "0", Sort: SInt}
	}
	switch op {
	case token.LSS:
		return lt(a, b)
	case token.LEQ:
		return le(a, b)
	case token.GTR:
		return gt(a, b)
	case token.GEQ:
		return ge(a, b)
	}
	var r Term
	arith := false
	nlProduct := false
	switch op {
	case token.ADD:
		r, arith = add(a, b), true
	case token.SUB:
		r, arith = sub(a, b), true
	case token.MUL:
		r, arith = mul(a, b), true
		if t.nlUninterp() {
			_, ca := constInt(a)
			_, cb := constInt(b)
			if !ca && !cb {
				// symbolic * symbolic: an uninterpreted product with the facts that matter (see flag nlarith)
				W.declFun("sf$nlmul", []string{SInt, SInt}, SInt)
				W.declFun("sf$nldiv", []string{SInt, SInt}, SInt)
				W.addAxiom("nlmul-div", "(forall ((x Int) (y Int)) (! (=> (> y 0) (and (= (sf$nldiv (sf$nlmul x y) y) x) (=> (>= x 0) (>= (sf$nlmul x y) 0)))) :pattern ((sf$nlmul x y))))")
				W.addAxiom("nlmul-succ", "(forall ((x Int) (y Int)) (! (= (sf$nlmul (+ x 1) y) (+ (sf$nlmul x y) y)) :pattern ((sf$nlmul (+ x 1) y))))")
				W.addAxiom("nlmul-zero", "(forall ((y Int)) (! (= (sf$nlmul 0 y) 0) :pattern ((sf$nlmul 0 y))))")
				r = app("sf$nlmul", SInt, a, b)
				nlProduct = true
			}
		}
	case token.QUO:
		if code {
			t.safety(neq(b, intLit(0)), "safety/div", pos, "integer division by zero")
		}
		r = app("godiv", SInt, a, b)
		if bv, ok := constInt(b); ok && bv.Sign() > 0 && (resT != nil && isUnsigned(resT)) {
			r = app("div", SInt, a, b)
		}
	case token.REM:
		if code {
			t.safety(neq(b, intLit(0)), "safety/div", pos, "integer modulo by zero")
		}
		r = app("gomod", SInt, a, b)
		if resT != nil && isUnsigned(resT) {
			r = app("mod", SInt, a, b)
		}
	case token.AND:
		if bv, ok := constInt(b); ok {
			if k, ok := isPow2Minus1(bv); ok && resT != nil && isUnsigned(resT) {
				r = app("mod", SInt, a, bigLit(pow2(k)))
				break
			}
		}
		W.declFun("band", []string{SInt, SInt}, SInt)
		W.addAxiom("band-bounds", "(forall ((x Int) (y Int)) (! (=> (and (>= x 0) (>= y 0)) (and (>= (band x y) 0) (<= (band x y) x) (<= (band x y) y))) :pattern ((band x y))))")
		W.addAxiom("band-nonneg-y", "(forall ((x Int) (y Int)) (! (=> (>= y 0) (and (>= (band x y) 0) (<= (band x y) y))) :pattern ((band x y))))")
		r = app("band", SInt, a, b)
	case token.OR:
		W.declFun("bor", []string{SInt, SInt}, SInt)
		W.addAxiom("bor-bounds", "(forall ((x Int) (y Int)) (! (=> (and (>= x 0) (>= y 0)) (and (>= (bor x y) x) (>= (bor x y) y) (<= (bor x y) (+ x y)))) :pattern ((bor x y))))")
		r = app("bor", SInt, a, b)
	case token.XOR:
		W.declFun("bxor", []string{SInt, SInt}, SInt)
		W.addAxiom("bxor-bounds", "(forall ((x Int) (y Int)) (! (=> (and (>= x 0) (>= y 0)) (and (>= (bxor x y) 0) (<= (bxor x y) (+ x y)))) :pattern ((bxor x y))))")
		r = app("bxor", SInt, a, b)
	case token.AND_NOT:
		W.declFun("bandnot", []string{SInt, SInt}, SInt)
		W.addAxiom("bandnot-bounds", "(forall ((x Int) (y Int)) (! (=> (>= x 0) (and (>= (bandnot x y) 0) (<= (bandnot x y) x))) :pattern ((bandnot x y))))")
		r = app("bandnot", SInt, a, b)
	case token.SHL:
		if bv, ok := constInt(b); ok && bv.IsInt64() && bv.Int64() >= 0 && bv.Int64() < 256 {
			r = mul(a, bigLit(pow2(uint(bv.Int64()))))
			arith = true
		} else {
			W.declFun("shl", []string{SInt, SInt}, SInt)
			W.addAxiom("shl-nonneg", "(forall ((x Int) (k Int)) (! (=> (and (>= x 0) (>= k 0)) (>= (shl x k) x)) :pattern ((shl x k))))")
			W.addAxiom("shl-one", "(forall ((k Int)) (! (=> (>= k 0) (>= (shl 1 k) 1)) :pattern ((shl 1 k))))")
			r = app("shl", SInt, a, b)
			arith = true
		}
	case token.SHR:
		if bv, ok := constInt(b); ok && bv.IsInt64() && bv.Int64() >= 0 && bv.Int64() < 256 {
			r = app("div", SInt, a, bigLit(pow2(uint(bv.Int64())))) // floor division = arithmetic shift
		} else {
			W.declFun("shr", []string{SInt, SInt}, SInt)
			W.addAxiom("shr-bounds", "(forall ((x Int) (k Int)) (! (=> (and (>= x 0) (>= k 0)) (and (>= (shr x k) 0) (<= (shr x k) x))) :pattern ((shr x k))))")
			r = app("shr", SInt, a, b)
		}
	default:
		t.errorf(pos, "unsupported operator %s", op)
		return Term{S: "0", Sort: SInt}
	}
	r.T = resT
	if resT != nil && isInteger(resT) {
		if isUnsigned(resT) {
			if arith && nlProduct {
				// byte offsets of elements do not overflow uintptr (assumption of flag nlarith)
				t.V.note("flag nlarith on " + t.u.Key + ": products of two variables are uninterpreted and assumed not to overflow")
			} else if arith {
				r = wrapTo(r, resT)
			}
		} else if arith && code && t.checked {
			t.assert(inRange(r, resT), "overflow", "", pos, "signed integer overflow")
		}
		r.T = resT
	}
	return r
}

// convert converts x to Go type to.
func (t *tr) convert(x Term, to types.Type, pos token.Pos) Term {
	from := x.T
	W := t.V.W
	toSort := W.sortOf(to)
	if from == nil {
		if x.Sort == toSort {
			x.T = to
			return x
		}
		t.errorf(pos, "conversion of untyped term %s to %s", x.S, to)
		return W.zero(to)
	}
	fromIface, toIface := isInterface(from), isInterface(to)
	switch {
	case toIface && !fromIface:
		return t.box(x, from, to)
	case toIface && fromIface:
		x.T = to
		return x
	case fromIface && !toIface:
		t.errorf(pos, "conversion from interface to concrete type needs a type assertion")
		return W.zero(to)
	}
	if isInteger(from) && isInteger(to) {
		flo, fhi, ok1 := intRange(from)
		tlo, thi, ok2 := intRange(to)
		if ok1 && ok2 && flo.Cmp(tlo) >= 0 && fhi.Cmp(thi) <= 0 {
			x.T = to
			return x
		}
		if !ok2 {
			x.T = to
			return x
		}
		if v, ok := constInt(x); ok && v.Cmp(tlo) >= 0 && v.Cmp(thi) <= 0 {
			x.T = to
			return x
		}
		if t.nlUninterp() && t.cur != nil && isUnsigned(to) && fhi.Cmp(thi) <= 0 {
			// under flag nlarith, signed -> unsigned conversions are checked instead of wrapped
			t.assert(ge(x, intLit(0)), "safety/conv", "", pos, "conversion to an unsigned type of a possibly negative value")
			x.T = to
			return x
		}
		return wrapTo(x, to)
	}
	if x.Sort == toSort {
		if isString(from) != isString(to) && (isString(from) || isString(to)) {
			// e.g. string(rune)
		} else {
			x.T = to
			return x
		}
	}
	// uninterpreted conversion function
	name := "conv$" + strings.Trim(x.Sort, "|") + "$" + strings.Trim(toSort, "|")
	if isString(to) || isString(from) {
		name = "conv$" + typeKey(from) + "$" + typeKey(to)
	}
	W.declFun(name, []string{x.Sort}, toSort)
	r := app(sym(name), toSort, x)
	r.T = to
	return r
}

// box converts a concrete value to an interface value.
func (t *tr) box(x Term, from, to types.Type) Term {
	W := t.V.W
	if b, ok := from.Underlying().(*types.Basic); ok && b.Kind() == types.UntypedNil {
		return Term{S: "0", Sort: SInt, T: to}
	}
	key := typeKey(from)
	fn := "box$" + key
	un := "unbox$" + key
	W.declFun("dyntype", []string{SInt}, SInt)
	W.declFun(fn, []string{x.Sort}, SInt)
	W.declFun(un, []string{SInt}, x.Sort)
	tid := t.V.typeID(from)
	W.addAxiom("box-"+key, fmt.Sprintf("(forall ((v %s)) (! (and (not (= (%s v) 0)) (= (%s (%s v)) v) (= (dyntype (%s v)) %d)) :pattern ((%s v))))", x.Sort, sym(fn), sym(un), sym(fn), sym(fn), tid, sym(fn)))
	r := app(sym(fn), SInt, x)
	r.T = to
	return r
}

func (t *tr) unbox(x Term, to types.Type) Term {
	W := t.V.W
	key := typeKey(to)
	srt := W.sortOf(to)
	un := "unbox$" + key
	fn := "box$" + key
	W.declFun("dyntype", []string{SInt}, SInt)
	W.declFun(fn, []string{srt}, SInt)
	W.declFun(un, []string{SInt}, srt)
	tid := t.V.typeID(to)
	W.addAxiom("box-"+key, fmt.Sprintf("(forall ((v %s)) (! (and (not (= (%s v) 0)) (= (%s (%s v)) v) (= (dyntype (%s v)) %d)) :pattern ((%s v))))", srt, sym(fn), sym(un), sym(fn), sym(fn), tid, sym(fn)))
	W.addAxiom("unbox-"+key, fmt.Sprintf("(forall ((i Int)) (! (=> (= (dyntype i) %d) (= (%s (%s i)) i)) :pattern ((%s i))))", tid, sym(fn), sym(un), sym(un)))
	r := app(sym(un), srt, x)
	r.T = to
	return r
}

var typeIDs = map[string]int{}

func (v *Verifier) typeID(T types.Type) int {
	k := typeKey(T)
	if id, ok := typeIDs[k]; ok {
		return id
	}
	id := len(typeIDs) + 1
	typeIDs[k] = id
	return id
}

// hasDynType is the formula "interface value x holds dynamic type T" (T concrete) or "implements T" (T interface).
func (t *tr) hasDynType(x Term, T types.Type) Term {
	W := t.V.W
	W.declFun("dyntype", []string{SInt}, SInt)
	if isInterface(T) {
		name := "implements$" + typeKey(T)
		W.declFun(name, []string{SInt}, SBool)
		if T.Underlying().(*types.Interface).NumMethods() == 0 {
			return neq(x, intLit(0))
		}
		return and(neq(x, intLit(0)), app(sym(name), SBool, app("dyntype", SInt, x)))
	}
	return and(neq(x, intLit(0)), eq(app("dyntype", SInt, x), intLit(int64(t.V.typeID(T)))))
}

// constTerm converts a go/constant value.
func (t *tr) constTerm(v constant.Value, T types.Type) (Term, bool) {
	W := t.V.W
	switch v.Kind() {
	case constant.Bool:
		r := boolLit(constant.BoolVal(v))
		r.T = T
		return r, true
	case constant.Int:
		if T != nil && isFloat(T) {
			r := W.fltLit(v.ExactString())
			r.T = T
			return r, true
		}
		bi, ok := new(big.Int).SetString(v.ExactString(), 10)
		if !ok {
			return Term{}, false
		}
		r := bigLit(bi)
		r.T = T
		if T != nil && isInterface(T) {
			r.T = types.Typ[types.Int]
			return t.box(r, types.Typ[types.Int], T), true
		}
		return r, true
	case constant.String:
		r := W.strLit(constant.StringVal(v))
		r.T = T
		if T != nil && isInterface(T) {
			r.T = types.Typ[types.String]
			return t.box(r, types.Typ[types.String], T), true
		}
		return r, true
	case constant.Float:
		if T != nil && isInteger(T) {
			if i := constant.ToInt(v); i.Kind() == constant.Int {
				return t.constTerm(i, T)
			}
		}
		r := W.fltLit(v.ExactString())
		r.T = T
		return r, true
	}
	return Term{}, false
}

// nlUninterp: the unit asked for uninterpreted nonlinear arithmetic (flag nlarith).
func (t *tr) nlUninterp() bool {
	return t.u != nil && t.u.Contract != nil && t.u.Contract.Flags["nlarith"] == "true"
}
