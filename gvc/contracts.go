package main

import (
	"fmt"
	"go/ast"
	"go/parser"
	"go/token"
	"os"
	"regexp"
	"strconv"
	"strings"
)

// Clause is one line-group of a contract.
type Clause struct {
	Kind  string // requires ensures always_ensures panic_ensures modifies panics_if invariant decreases known assume_at
	Label string
	Text  string
	Expr  ast.Expr   // parsed expression (nil for modifies: see Locs)
	Locs  []ast.Expr // modifies
	Loop  int        // for loop clauses
	Where string     // file:line
	Extra string
}

// Contract of one function (or function literal, interface method, func-typed field).
type Contract struct {
	Key         string
	Extern      bool // trusted: assumed at call sites, body not verified
	PkgPath     string
	File        string
	ParamNames  []string
	ResultNames []string
	Clauses     []*Clause
	MayPanic    bool
	Pure        bool
	Overflow    string // "", checked, math
	NoFrame     bool   // `modifies unknown`: frame not checked / everything havoc'd
	Flags       map[string]string
	Used        bool
}

func (c *Contract) clauses(kind string) []*Clause {
	var r []*Clause
	for _, cl := range c.Clauses {
		if cl.Kind == kind {
			r = append(r, cl)
		}
	}
	return r
}

type SpecParam struct {
	Name string
	Type ast.Expr
}

// SpecFunc is a specification-only function: uninterpreted (Body == nil) or a macro.
type SpecFunc struct {
	Name    string
	PkgPath string
	Params  []SpecParam
	Ret     ast.Expr
	Body    ast.Expr
	Where   string
}

type SpecDecl struct {
	Kind    string // axiom lemma ghostvar ghostfield constvar
	Label   string
	Expr    ast.Expr
	Text    string
	PkgPath string
	Name    string   // ghostvar/ghostfield name
	Type    ast.Expr // ghostvar/ghostfield type
	Owner   string   // ghostfield owner type name
	Where   string
	Vars    []SpecParam // lemma/axiom universally quantified variables
}

// ContractSet is everything parsed from contract files.
type ContractSet struct {
	Funcs     map[string]*Contract
	SpecFuncs map[string]*SpecFunc // by pkgshort.name and by bare name
	Decls     []*SpecDecl
	Files     []string
	Errs      []string
}

var clauseKeywords = map[string]bool{
	"func": true, "extern": true, "spec": true, "axiom": true, "lemma": true, "ghostvar": true, "ghostfield": true,
	"constvar": true, "package": true,
	"requires": true, "ensures": true, "ghost_ensures": true, "always_ensures": true, "panic_ensures": true, "modifies": true, "panics_if": true,
	"may_panic": true, "pure": true, "preserves": true, "overflow": true, "loop": true, "known": true, "flag": true, "vars": true,
}

var labelRe = regexp.MustCompile(`^([A-Za-z_][A-Za-z0-9_\-]*):\s+(.*)$`)

func newContractSet() *ContractSet {
	return &ContractSet{Funcs: map[string]*Contract{}, SpecFuncs: map[string]*SpecFunc{}}
}

func (cs *ContractSet) errorf(where, f string, a ...interface{}) {
	cs.Errs = append(cs.Errs, where+": "+fmt.Sprintf(f, a...))
}

// parseFile reads a contract file. pkgPath is the resolution context (can be changed by `package` lines).
func (cs *ContractSet) parseFile(path string, pkgPath string) {
	data, err := os.ReadFile(path)
	if err != nil {
		cs.errorf(path, "%v", err)
		return
	}
	cs.Files = append(cs.Files, path)
	type item struct {
		text  string
		where string
	}
	var items []item
	for i, line := range strings.Split(string(data), "\n") {
		l := strings.TrimSpace(line)
		if strings.HasPrefix(l, "//@") {
			l = strings.TrimSpace(l[3:])
		} else if strings.HasSuffix(path, ".contracts") {
			if strings.HasPrefix(l, "#") || strings.HasPrefix(l, "//") {
				continue
			}
		} else {
			continue
		}
		if k := strings.Index(l, " -- "); k >= 0 {
			l = strings.TrimSpace(l[:k])
		}
		if strings.HasPrefix(l, "-- ") || l == "--" {
			continue
		}
		if l == "" {
			continue
		}
		first := l
		if k := strings.IndexAny(l, " \t("); k >= 0 {
			first = l[:k]
		}
		if clauseKeywords[first] || len(items) == 0 {
			items = append(items, item{l, fmt.Sprintf("%s:%d", path, i+1)})
		} else {
			items[len(items)-1].text += " " + l
		}
	}
	var cur *Contract
	var curDecl *SpecDecl
	for _, it := range items {
		l := it.text
		first, rest := l, ""
		if k := strings.IndexAny(l, " \t"); k >= 0 {
			first, rest = l[:k], strings.TrimSpace(l[k+1:])
		}
		switch first {
		case "package":
			pkgPath = rest
			cur = nil
		case "extern", "func":
			ext := false
			if first == "extern" {
				ext = true
				rest = strings.TrimSpace(strings.TrimPrefix(rest, "func"))
			}
			c := &Contract{Extern: ext, PkgPath: pkgPath, File: it.where, Flags: map[string]string{}}
			// KEY [(names)] [(results)]
			key := rest
			if k := strings.Index(rest, " ("); k >= 0 {
				key = rest[:k]
				lists := rest[k+1:]
				parts := splitParenLists(lists)
				if len(parts) > 0 {
					c.ParamNames = splitNames(parts[0])
				}
				if len(parts) > 1 {
					c.ResultNames = splitNames(parts[1])
				}
			}
			c.Key = strings.TrimSpace(key)
			if old, dup := cs.Funcs[c.Key]; dup {
				cs.errorf(it.where, "duplicate contract for %s (also at %s)", c.Key, old.File)
			}
			cs.Funcs[c.Key] = c
			cur = c
			curDecl = nil
		case "spec":
			cur = nil
			curDecl = nil
			cs.parseSpecFunc(strings.TrimSpace(strings.TrimPrefix(rest, "func")), pkgPath, it.where)
		case "axiom", "lemma":
			cur = nil
			d := &SpecDecl{Kind: first, PkgPath: pkgPath, Where: it.where}
			if m := labelRe.FindStringSubmatch(rest); m != nil {
				d.Label, rest = m[1], m[2]
			} else {
				cs.errorf(it.where, "%s needs a label", first)
			}
			d.Text = rest
			d.Expr = cs.parseExpr(rest, it.where)
			cs.Decls = append(cs.Decls, d)
			curDecl = d
		case "vars":
			// vars a, b int; c bool   (universally quantified variables of the preceding lemma/axiom)
			if curDecl == nil {
				cs.errorf(it.where, "vars outside lemma/axiom")
				continue
			}
			src := "package p\nfunc f(" + strings.ReplaceAll(rest, ";", ",") + ")"
			f, err := parser.ParseFile(token.NewFileSet(), "", src, 0)
			if err != nil {
				cs.errorf(it.where, "vars: %v", err)
				continue
			}
			fd := f.Decls[0].(*ast.FuncDecl)
			for _, fl := range fd.Type.Params.List {
				for _, n := range fl.Names {
					curDecl.Vars = append(curDecl.Vars, SpecParam{n.Name, fl.Type})
				}
			}
		case "ghostvar", "constvar":
			cur = nil
			f := strings.Fields(rest)
			if len(f) < 1 {
				cs.errorf(it.where, "bad %s", first)
				continue
			}
			d := &SpecDecl{Kind: first, PkgPath: pkgPath, Where: it.where, Name: f[0]}
			if len(f) > 1 {
				d.Type = cs.parseExpr(strings.Join(f[1:], " "), it.where)
			}
			cs.Decls = append(cs.Decls, d)
		case "ghostfield":
			cur = nil
			f := strings.Fields(rest)
			if len(f) < 2 || !strings.Contains(f[0], ".") {
				cs.errorf(it.where, "bad ghostfield (want Owner.name Type)")
				continue
			}
			k := strings.LastIndex(f[0], ".")
			d := &SpecDecl{Kind: first, PkgPath: pkgPath, Where: it.where, Owner: f[0][:k], Name: f[0][k+1:]}
			d.Type = cs.parseExpr(strings.Join(f[1:], " "), it.where)
			cs.Decls = append(cs.Decls, d)
		default:
			if cur == nil {
				cs.errorf(it.where, "clause %q outside a func contract", first)
				continue
			}
			cs.parseClause(cur, first, rest, it.where)
		}
	}
}

func splitParenLists(s string) []string {
	var out []string
	depth := 0
	start := -1
	for i, c := range s {
		switch c {
		case '(':
			if depth == 0 {
				start = i + 1
			}
			depth++
		case ')':
			depth--
			if depth == 0 && start >= 0 {
				out = append(out, s[start:i])
				start = -1
			}
		}
	}
	return out
}

func splitNames(s string) []string {
	var r []string
	for _, f := range strings.Split(s, ",") {
		f = strings.TrimSpace(f)
		if f == "" {
			continue
		}
		// allow "name type": keep the name only
		if k := strings.IndexAny(f, " \t"); k >= 0 {
			f = f[:k]
		}
		r = append(r, f)
	}
	return r
}

func (cs *ContractSet) parseExpr(s, where string) ast.Expr {
	e, err := parser.ParseExpr(s)
	if err != nil {
		cs.errorf(where, "cannot parse %q: %v", s, err)
		return nil
	}
	return e
}

func (cs *ContractSet) parseClause(c *Contract, kind, rest, where string) {
	switch kind {
	case "may_panic":
		c.MayPanic = true
		return
	case "pure":
		c.Pure = true
		return
	case "overflow":
		c.Overflow = rest
		return
	case "flag":
		f := strings.Fields(rest)
		if len(f) == 1 {
			c.Flags[f[0]] = "true"
		} else if len(f) >= 2 {
			c.Flags[f[0]] = strings.Join(f[1:], " ")
		}
		return
	}
	cl := &Clause{Kind: kind, Where: where}
	if kind == "loop" {
		// loop K invariant [label:] E   |  loop K decreases E
		f := strings.Fields(rest)
		if len(f) < 3 {
			cs.errorf(where, "bad loop clause")
			return
		}
		k, err := strconv.Atoi(f[0])
		if err != nil {
			cs.errorf(where, "bad loop ordinal %q", f[0])
			return
		}
		cl.Loop = k
		cl.Kind = f[1]
		if cl.Kind != "invariant" && cl.Kind != "decreases" && cl.Kind != "modifies" && cl.Kind != "exit" && cl.Kind != "step" {
			cs.errorf(where, "bad loop clause kind %q", cl.Kind)
			return
		}
		rest = strings.TrimSpace(strings.SplitN(rest, f[1], 2)[1])
		if cl.Kind == "modifies" {
			cl.Kind = "loopmodifies"
		}
		if cl.Kind == "step" {
			cl.Kind = "loopstep"
		}
		if cl.Kind == "exit" {
			// loop K exit [label:] E: asserted where control leaves the loop (normal exit and breaks joined)
			cl.Kind = "loopexit"
		}
	}
	if kind == "known" {
		// known ID excl E
		f := strings.Fields(rest)
		if len(f) < 3 || f[1] != "excl" {
			cs.errorf(where, "bad known clause (want: known ID excl E)")
			return
		}
		cl.Label = f[0]
		rest = strings.TrimSpace(strings.SplitN(rest, " excl ", 2)[1])
		cl.Text = rest
		cl.Expr = cs.parseExpr(rest, where)
		c.Clauses = append(c.Clauses, cl)
		return
	}
	if cl.Kind == "modifies" || cl.Kind == "loopmodifies" || cl.Kind == "preserves" {
		cl.Text = rest
		if rest == "nothing" {
			c.Clauses = append(c.Clauses, cl)
			return
		}
		if rest == "unknown" {
			c.NoFrame = true
			return
		}
		e := cs.parseExpr("f("+rest+")", where)
		if call, ok := e.(*ast.CallExpr); ok {
			cl.Locs = call.Args
		}
		c.Clauses = append(c.Clauses, cl)
		return
	}
	if m := labelRe.FindStringSubmatch(rest); m != nil {
		cl.Label, rest = m[1], m[2]
	}
	cl.Text = rest
	cl.Expr = cs.parseExpr(rest, where)
	c.Clauses = append(c.Clauses, cl)
}

func (cs *ContractSet) parseSpecFunc(s, pkgPath, where string) {
	// name(params) ret [= body]
	body := ""
	depth := 0
	for i, ch := range s {
		if ch == '(' {
			depth++
		} else if ch == ')' {
			depth--
		} else if ch == '=' && depth == 0 {
			body = strings.TrimSpace(s[i+1:])
			s = strings.TrimSpace(s[:i])
			break
		}
	}
	src := "package p\nfunc " + s
	f, err := parser.ParseFile(token.NewFileSet(), "", src, 0)
	if err != nil || len(f.Decls) != 1 {
		cs.errorf(where, "cannot parse spec func %q: %v", s, err)
		return
	}
	fd := f.Decls[0].(*ast.FuncDecl)
	sf := &SpecFunc{Name: fd.Name.Name, PkgPath: pkgPath, Where: where}
	for _, fl := range fd.Type.Params.List {
		for _, n := range fl.Names {
			sf.Params = append(sf.Params, SpecParam{n.Name, fl.Type})
		}
	}
	if fd.Type.Results != nil && len(fd.Type.Results.List) == 1 {
		sf.Ret = fd.Type.Results.List[0].Type
	} else {
		cs.errorf(where, "spec func %s needs exactly one result type", sf.Name)
		return
	}
	if body != "" {
		sf.Body = cs.parseExpr(body, where)
	}
	if _, dup := cs.SpecFuncs[sf.Name]; dup {
		cs.errorf(where, "duplicate spec func %s", sf.Name)
	}
	cs.SpecFuncs[sf.Name] = sf
}
