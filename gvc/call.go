package main

import (
	"regexp"
	"fmt"
	"go/ast"
	"go/parser"
	"go/token"
	"go/types"
	"strings"
)

// note records an assumption made by the encoding.
func (v *Verifier) note(s string) {
	for _, n := range v.Notes {
		if n == s {
			return
		}
	}
	v.Notes = append(v.Notes, s)
}

// callTarget describes the callee of a call expression.
type callTarget struct {
	key      string
	sig      *types.Signature
	recv     ast.Expr    // receiver expression for methods
	recvPtr  bool        // method has pointer receiver
	recvType types.Type  // declared receiver type
	fn       *types.Func // static callee, if any
	recvPath []int       // promoted method: field path from recv to the embedded receiver
	holder   ast.Expr    // func-typed field call x.f(...): x (bound to `recv` in the role contract)
	lit      *ast.FuncLit
}

func (t *tr) resolveCall(c *ast.CallExpr) *callTarget {
	fun := ast.Unparen(c.Fun)
	switch f := fun.(type) {
	case *ast.Ident:
		switch o := t.info.ObjectOf(f).(type) {
		case *types.Func:
			return &callTarget{key: funcKey(o), sig: o.Type().(*types.Signature), fn: o}
		case *types.Var:
			sig, _ := o.Type().Underlying().(*types.Signature)
			ct := &callTarget{key: "fv:" + t.rootKey() + "." + o.Name(), sig: sig}
			// a local bound exactly once to a function literal (x := func...) and never reassigned: the call can
			// be inlined when there is no contract for it
			if lit := t.soleLit(o); lit != nil {
				ct.lit = lit
			}
			return ct
		}
	case *ast.SelectorExpr:
		if sl, ok := t.info.Selections[f]; ok {
			switch sl.Kind() {
			case types.MethodVal:
				m := sl.Obj().(*types.Func)
				sig := m.Type().(*types.Signature)
				ct := &callTarget{key: funcKey(m), sig: sig, recv: f.X, fn: m}
				if sig.Recv() != nil {
					ct.recvType = sig.Recv().Type()
					_, ct.recvPtr = ct.recvType.(*types.Pointer)
				}
				if len(sl.Index()) > 1 {
					// promoted method through embedded fields: receiver is the embedded field
					ct.recvPath = sl.Index()[:len(sl.Index())-1]
				}
				return ct
			case types.FieldVal:
				fld := sl.Obj().(*types.Var)
				sig, _ := fld.Type().Underlying().(*types.Signature)
				owner := t.typeOf(f.X)
				if p, ok := owner.Underlying().(*types.Pointer); ok {
					owner = p.Elem()
				}
				return &callTarget{key: "field:" + typeKey(owner) + "." + fld.Name(), sig: sig, holder: f.X}
			}
		}
		if o, ok := t.info.ObjectOf(f.Sel).(*types.Func); ok {
			return &callTarget{key: funcKey(o), sig: o.Type().(*types.Signature), fn: o}
		}
		if o, ok := t.info.ObjectOf(f.Sel).(*types.Var); ok {
			sig, _ := o.Type().Underlying().(*types.Signature)
			return &callTarget{key: "gv:" + shortPkg(o.Pkg().Path()) + "." + o.Name(), sig: sig}
		}
	case *ast.FuncLit:
		sig, _ := t.typeOf(f).(*types.Signature)
		return &callTarget{key: fmt.Sprintf("%s$%d", t.rootKey(), t.litIndex(f)), sig: sig, lit: f}
	}
	return nil
}

// soleLit returns the function literal a local variable is bound to, if that is its only definition in the unit.
func (t *tr) soleLit(o *types.Var) *ast.FuncLit {
	if o.Pkg() == nil || o.Parent() == o.Pkg().Scope() || o.IsField() {
		return nil
	}
	root := t.u
	for root.Outer != nil {
		root = root.Outer
	}
	if root.Body == nil {
		return nil
	}
	var lit *ast.FuncLit
	n := 0
	ast.Inspect(root.Body, func(nd ast.Node) bool {
		switch x := nd.(type) {
		case *ast.AssignStmt:
			for i, l := range x.Lhs {
				id, ok := l.(*ast.Ident)
				if !ok || t.info.ObjectOf(id) != o {
					continue
				}
				n++
				if len(x.Lhs) == len(x.Rhs) {
					if fl, ok := ast.Unparen(x.Rhs[i]).(*ast.FuncLit); ok {
						lit = fl
					}
				}
			}
		case *ast.ValueSpec:
			for i, id := range x.Names {
				if t.info.ObjectOf(id) != o {
					continue
				}
				n++
				if i < len(x.Values) {
					if fl, ok := ast.Unparen(x.Values[i]).(*ast.FuncLit); ok {
						lit = fl
					}
				}
			}
		case *ast.UnaryExpr:
			if x.Op == token.AND {
				if id, ok := ast.Unparen(x.X).(*ast.Ident); ok && t.info.ObjectOf(id) == o {
					n += 2 // address taken: may be reassigned through the pointer
				}
			}
		case *ast.IncDecStmt, *ast.RangeStmt:
		}
		return true
	})
	if n == 1 {
		return lit
	}
	return nil
}

func (t *tr) rootKey() string {
	u := t.u
	for u.Outer != nil {
		u = u.Outer
	}
	return u.Key
}

// evCall evaluates a call and returns its results.
func (t *tr) evCall(c *ast.CallExpr) []Term {
	if t.cur == nil {
		return t.zeroResults(c)
	}
	// conversion?
	if tv, ok := t.info.Types[c.Fun]; ok && tv.IsType() {
		if len(c.Args) != 1 {
			t.errorf(c.Pos(), "bad conversion")
			return []Term{{S: "0", Sort: SInt}}
		}
		v := t.ev(c.Args[0])
		if v.T == nil {
			v.T = t.typeOf(c.Args[0])
		}
		return []Term{t.convert(v, tv.Type, c.Pos())}
	}
	// builtin?
	if id, ok := ast.Unparen(c.Fun).(*ast.Ident); ok {
		if b, ok := t.info.ObjectOf(id).(*types.Builtin); ok {
			return t.evBuiltin(b.Name(), c)
		}
	}
	if se, ok := ast.Unparen(c.Fun).(*ast.SelectorExpr); ok {
		if b, ok := t.info.ObjectOf(se.Sel).(*types.Builtin); ok {
			return t.evBuiltin("unsafe."+b.Name(), c)
		}
	}
	ct := t.resolveCall(c)
	if ct == nil || ct.sig == nil {
		t.errorf(c.Pos(), "cannot resolve callee of %s", exprString(c.Fun))
		return t.havocResults(c)
	}
	con := t.V.CS.Funcs[ct.key]
	// contracts specialised by the static type of the first argument: KEY[T]
	specialised := false
	if len(c.Args) > 0 && ct.holder == nil {
		if at := t.typeOf(c.Args[0]); at != nil {
			if c2, ok := t.V.CS.Funcs[ct.key+"["+typeKey(at)+"]"]; ok {
				con = c2
				specialised = true
			}
		}
	}
	if con == nil && ct.lit != nil {
		// immediately invoked literal without contract: inline it
		return t.inlineLit(ct.lit, c.Args, c.Pos())
	}
	if con == nil && effectFreeByDefault(ct.key) {
		// logging and formatting helpers without an explicit contract: no effect on program state, any result,
		// no panic (assumption, noted) — so that adding a log line does not make a unit unverifiable
		t.V.note("default contract for " + ct.key + ": effect-free (logging/formatting), any result")
		return t.havocResults(c)
	}
	if con == nil {
		t.errorf(c.Pos(), "no contract for callee %s", ct.key)
		t.V.missing[ct.key]++
		return t.havocResults(c)
	}
	con.Used = true
	t.detCall(ct.key, con, c.Pos())
	// `flag abstract_calls k1,k2` on the unit: these callees are over-approximated — any result, may panic,
	// same frame — and their pre/postconditions are neither required nor used (sound for containment proofs)
	if t.u.Contract != nil && t.u.Contract.Flags["abstract_calls"] != "" {
		for _, k := range strings.Split(t.u.Contract.Flags["abstract_calls"], ",") {
			if strings.TrimSpace(k) == ct.key {
				abs := *con
				abs.MayPanic = true
				abs.Clauses = nil
				for _, cl := range con.Clauses {
					if cl.Kind == "modifies" || cl.Kind == "preserves" {
						abs.Clauses = append(abs.Clauses, cl)
					}
				}
				con = &abs
				t.V.note("flag abstract_calls on " + t.u.Key + ": " + ct.key + " over-approximated (any result, may panic)")
			}
		}
	}
	// `flag abstract_total k1,k2`: like abstract_calls, but the callee is assumed not to panic (an assumption
	// listed with the unit: its own contract proves it under a precondition this caller does not establish)
	if t.u.Contract != nil && t.u.Contract.Flags["abstract_total"] != "" {
		for _, k := range strings.Split(t.u.Contract.Flags["abstract_total"], ",") {
			if strings.TrimSpace(k) == ct.key {
				abs := *con
				abs.MayPanic = false
				abs.Clauses = nil
				for _, cl := range con.Clauses {
					if cl.Kind == "modifies" || cl.Kind == "preserves" {
						abs.Clauses = append(abs.Clauses, cl)
					}
				}
				con = &abs
				t.V.note("flag abstract_total on " + t.u.Key + ": " + ct.key + " over-approximated (any result) and assumed not to panic")
			}
		}
	}
	// receiver
	var recvTerm Term
	var writeback func()
	haveRecv := false
	if ct.recv != nil && len(ct.recvPath) > 0 {
		// promoted method: load the embedded field that is the real receiver
		haveRecv = true
		base := t.ev(ct.recv)
		emb := t.loadPath(base, ct.recvPath, c.Pos())
		et := emb.T
		_, embIsPtr := et.Underlying().(*types.Pointer)
		switch {
		case isInterface(et):
			t.safety(neq(emb, intLit(0)), "safety/nil", c.Pos(), "method call on nil embedded interface")
			recvTerm = emb
		case ct.recvPtr && !embIsPtr:
			// pointer-receiver method on an embedded struct value: copy-in (no write-back through promoted path)
			p := t.alloc()
			p.T = types.NewPointer(et)
			t.storePtr(p, emb, c.Pos())
			recvTerm = p
			t.V.note("promoted pointer-receiver method on embedded value: receiver passed as a copy")
		case !ct.recvPtr && embIsPtr:
			t.safety(neq(emb, intLit(0)), "safety/nil", c.Pos(), "method call through nil embedded pointer")
			recvTerm = t.loadPtr(emb, c.Pos())
		default:
			recvTerm = emb
		}
		if ct.recvType != nil {
			recvTerm.T = ct.recvType
		}
	} else if ct.holder != nil {
		haveRecv = true
		recvTerm = t.ev(ct.holder)
		recvTerm.T = t.typeOf(ct.holder)
	} else if ct.recv != nil {
		haveRecv = true
		rt := t.typeOf(ct.recv)
		_, exprIsPtr := rt.Underlying().(*types.Pointer)
		if isInterface(rt) {
			recvTerm = t.ev(ct.recv)
			t.safety(neq(recvTerm, intLit(0)), "safety/nil", c.Pos(), "method call on nil interface")
		} else if ct.recvPtr && !exprIsPtr {
			if con.Flags["recv_by_value"] == "true" || len(con.clauses("modifies")) == 0 && !con.NoFrame {
				// callee does not modify anything: pass a fresh cell holding a copy, no write-back
				recvTerm, _ = t.addrOfExpr(ct.recv, false)
			} else {
				recvTerm, writeback = t.addrOfExpr(ct.recv, true)
			}
		} else if !ct.recvPtr && exprIsPtr {
			p := t.ev(ct.recv)
			t.safety(neq(p, intLit(0)), "safety/nil", c.Pos(), "method call through nil pointer")
			recvTerm = t.loadPtr(p, c.Pos())
		} else {
			recvTerm = t.ev(ct.recv)
		}
		if ct.recvType != nil {
			recvTerm.T = ct.recvType
		}
	}
	// arguments
	params := ct.sig.Params()
	var args []Term
	var wbs []func()
	nfixed := params.Len()
	if ct.sig.Variadic() {
		nfixed--
	}
	if len(c.Args) == 1 && params.Len() > 1 {
		// f(g()) with multi-value g
		if _, ok := t.typeOf(c.Args[0]).(*types.Tuple); ok {
			args = t.evMulti(c.Args[0], params.Len())
		}
	}
	if args == nil {
		for i := 0; i < nfixed && i < len(c.Args); i++ {
			a := c.Args[i]
			if u, ok := ast.Unparen(a).(*ast.UnaryExpr); ok && u.Op == token.AND {
				if _, isLit := ast.Unparen(u.X).(*ast.CompositeLit); !isLit {
					p, wb := t.addrOfExpr(u.X, true)
					p.T = params.At(i).Type()
					if i == 0 && specialised {
						p.T = t.typeOf(a) // type-specialised contract: the concrete pointer
					} else if isInterface(p.T) {
						p = t.box(p, t.typeOf(a), p.T)
					}
					args = append(args, p)
					wbs = append(wbs, wb)
					continue
				}
			}
			if i == 0 && specialised {
				v0 := t.ev(a)
				v0.T = t.typeOf(a)
				args = append(args, v0)
				continue
			}
			args = append(args, t.evTo(a, params.At(i).Type()))
		}
		if ct.sig.Variadic() {
			vt := params.At(nfixed).Type()
			if c.Ellipsis.IsValid() {
				args = append(args, t.evTo(c.Args[nfixed], vt))
			} else {
				st := vt.Underlying().(*types.Slice)
				es := t.V.W.sortOf(st.Elem())
				eT := types.Type(st.Elem())
				extra := c.Args[min(nfixed, len(c.Args)):]
				if len(extra) == 0 {
					args = append(args, t.V.W.zero(vt))
				} else {
					var els []Term
					for _, a := range extra {
						els = append(els, t.evTo(a, st.Elem()))
					}
					arr := t.alloc()
					h := t.elemHeapT(eT, es)
					contents := sel(t.read(h), arr)
					for i, e := range els {
						contents = store(contents, intLit(int64(i)), e)
					}
					t.heapStore(h, arr, contents)
					s := mkSlice(arr, intLit(0), intLit(int64(len(els))), intLit(int64(len(els))))
					s.T = vt
					args = append(args, s)
				}
			}
		}
	}
	if t.cur == nil {
		return t.zeroResults(c)
	}
	// higher-order: `flag calls f(a, b)` — the callee calls its function-typed parameter f once with its own
	// parameters a, b; we apply the contract of the actual argument (method value / function / literal).
	var called []Term
	if spec := con.Flags["calls"]; spec != "" {
		called = t.applyCallsFlag(con, ct, c, spec)
		if t.cur == nil {
			return t.zeroResults(c)
		}
	}
	t.calledResults = called
	res := t.applyContract(con, ct, haveRecv, recvTerm, args, c.Pos())
	t.calledResults = nil
	if writeback != nil {
		writeback()
	}
	for _, wb := range wbs {
		wb()
	}
	return res
}

func (t *tr) zeroResults(c *ast.CallExpr) []Term {
	T := t.typeOf(c)
	if T == nil {
		return nil
	}
	if tup, ok := T.(*types.Tuple); ok {
		out := make([]Term, tup.Len())
		for i := range out {
			out[i] = t.V.W.zero(tup.At(i).Type())
		}
		return out
	}
	return []Term{t.V.W.zero(T)}
}

func (t *tr) havocResults(c *ast.CallExpr) []Term {
	T := t.typeOf(c)
	if T == nil || t.cur == nil {
		return t.zeroResults(c)
	}
	if tup, ok := T.(*types.Tuple); ok {
		out := make([]Term, tup.Len())
		for i := range out {
			out[i] = t.havocTerm("res", tup.At(i).Type())
		}
		return out
	}
	return []Term{t.havocTerm("res", T)}
}

// addrOfExpr materialises the address of an addressable expression as a fresh heap cell holding a copy,
// returning the reference and a write-back function (copy-in/copy-out; the callee must not retain the pointer).
func (t *tr) addrOfExpr(e ast.Expr, needWriteback bool) (Term, func()) {
	e = ast.Unparen(e)
	T := t.typeOf(e)
	// &p.f where p is a pointer and f a struct-typed... handled uniformly by copy-in/copy-out.
	// Special case: e is *q  => the pointer itself.
	if se, ok := e.(*ast.StarExpr); ok {
		return t.ev(se.X), func() {}
	}
	v := t.ev(e)
	v.T = T
	var p Term
	if fa, ok := t.fieldAddr(e); ok {
		// &q.f with q a pointer: a stable interior address (negative, never allocated), so that ghost state
		// attached to the embedded object persists between calls
		p = fa
	} else {
		p = t.alloc()
	}
	p.T = types.NewPointer(T)
	t.storePtr(p, v, e.Pos())
	t.V.note("address-of as copy-in/copy-out: callee assumed not to retain the pointer")
	if !needWriteback {
		return p, func() {}
	}
	return p, func() {
		if t.cur == nil {
			return
		}
		nv := t.loadPtr(p, e.Pos())
		t.assignTo(e, nv)
	}
}

// bindParams builds the spec variable map for a contract instance.
func (t *tr) bindParams(con *Contract, sig *types.Signature, haveRecv bool, recv Term, args []Term) map[string]Term {
	vars := map[string]Term{}
	names := con.ParamNames
	idx := 0
	next := func(def string) string {
		if idx < len(names) {
			n := names[idx]
			idx++
			return n
		}
		idx++
		return def
	}
	if haveRecv {
		def := "recv"
		if sig.Recv() != nil && sig.Recv().Name() != "" && sig.Recv().Name() != "_" {
			def = sig.Recv().Name()
		}
		if len(names) > 0 && len(names) == sig.Params().Len()+1 {
			vars[next(def)] = recv
		} else {
			vars[def] = recv
		}
		vars["recv"] = recv
	}
	for i, a := range args {
		def := fmt.Sprintf("arg%d", i)
		if i < sig.Params().Len() {
			if n := sig.Params().At(i).Name(); n != "" && n != "_" {
				def = n
			}
		}
		n := next(def)
		vars[n] = a
		vars[fmt.Sprintf("arg%d", i)] = a
	}
	return vars
}

func (t *tr) bindResults(con *Contract, sig *types.Signature, vars map[string]Term, res []Term) {
	for i, r := range res {
		vars[fmt.Sprintf("result%d", i)] = r
		if i < len(con.ResultNames) {
			vars[con.ResultNames[i]] = r
		} else if n := sig.Results().At(i).Name(); n != "" && n != "_" {
			vars[n] = r
		}
	}
	if len(res) == 1 {
		vars["result"] = res[0]
	}
}

// applyContract asserts the precondition, havocs the frame and assumes the postcondition of con.
func (t *tr) applyContract(con *Contract, ct *callTarget, haveRecv bool, recv Term, args []Term, pos token.Pos) []Term {
	pkg := t.V.Pkgs[con.PkgPath]
	vars := t.bindParams(con, ct.sig, haveRecv, recv, args)
	pre := t.cur.Env.clone()
	qn := t.qn()
	sc := &specCtx{pkg: pkg, vars: vars, cur: pre, old: pre, where: con.File, qn: qn}
	short := ct.key
	for _, cl := range con.clauses("requires") {
		sc.where = cl.Where
		t.assert(t.spec(cl.Expr, sc), "pre/"+short, cl.Label, pos, "precondition of "+ct.key+": "+cl.Text)
	}
	if t.spawnOnly {
		// `go f(args)`: only the hand-over obligations; the spawned call's effects are not this goroutine's
		out := make([]Term, ct.sig.Results().Len())
		for i := range out {
			out[i] = t.V.W.zero(ct.sig.Results().At(i).Type())
		}
		return out
	}
	// panics
	var pcond []Term
	for _, cl := range con.clauses("panics_if") {
		sc.where = cl.Where
		pcond = append(pcond, t.spec(cl.Expr, sc))
	}
	if len(pcond) > 0 {
		pc := or(pcond...)
		if t.mayPanicOut() && len(t.guard) == 0 {
			bt, bf := t.branch(pc)
			t.cur = bt
			t.calleePanics(con, sc, pre, vars, pos)
			t.cur = bf
		} else {
			t.assert(not(pc), "nopanic/"+short, "", pos, "callee "+ct.key+" must not panic here")
		}
	}
	if con.MayPanic {
		if len(t.guard) > 0 {
			t.errorf(pos, "call to may_panic function %s in a guarded expression", ct.key)
		} else if t.mayPanicOut() {
			bs := t.fork(2)
			t.cur = bs[0]
			t.calleePanics(con, sc, pre, vars, pos)
			t.cur = bs[1]
		} else {
			t.assert(tFalse, "nopanic/"+short, "", pos, "callee "+ct.key+" may panic and the panic is not contained")
		}
	}
	if t.cur == nil {
		return nil
	}
	// frame
	t.havocModifies(con, sc, pre, pos)
	// results
	nres := ct.sig.Results().Len()
	res := make([]Term, nres)
	for i := 0; i < nres; i++ {
		res[i] = t.havocTerm("r$"+lastName(ct.key), ct.sig.Results().At(i).Type())
	}
	post := t.cur.Env
	vars2 := map[string]Term{}
	for k, v := range vars {
		vars2[k] = v
	}
	t.bindResults(con, ct.sig, vars2, res)
	for i, cr := range t.calledResults {
		vars2[fmt.Sprintf("called%d", i)] = cr
	}
	sc2 := &specCtx{pkg: pkg, vars: vars2, cur: post, old: pre, where: con.File, qn: qn}
	if con.NoFrame {
		// `modifies unknown` havocs every heap known so far; a heap that the postcondition mentions for the first
		// time (a ghost variable, say) must count as havoc'd too, or old(x) and x would be the same symbol.
		n0 := len(t.allVars)
		for _, kind := range []string{"ensures", "always_ensures", "ghost_ensures"} {
			for _, cl := range con.clauses(kind) {
				if !calleeInternal(cl.Text) {
					sc2.where = cl.Where
					t.spec(cl.Expr, sc2) // evaluated only to materialise the heaps it reads
				}
			}
		}
		for _, v := range append([]*Var(nil), t.allVars[n0:]...) {
			if v.Heap && v != t.allocTop {
				t.fresh(v)
			}
		}
		post = t.cur.Env
		sc2.cur = post
	}
	for _, kind := range []string{"ensures", "always_ensures", "ghost_ensures"} {
		for _, cl := range con.clauses(kind) {
			if calleeInternal(cl.Text) {
				// refers to an intermediate state of the callee: proved there, not usable (and not assumed) here
				continue
			}
			sc2.where = cl.Where
			t.assume(t.spec(cl.Expr, sc2))
		}
	}
	// vacuity guard: the assumed postcondition must be satisfiable here (a contradiction with the callee's frame
	// or with the caller's knowledge would make everything after the call vacuously provable)
	if len(con.clauses("ensures"))+len(con.clauses("ghost_ensures"))+len(con.clauses("always_ensures")) > 0 && len(t.guard) == 0 {
		t.cover("after-call/"+lastName(ct.key), pos)
	}
	if len(con.clauses("ghost_ensures")) > 0 {
		t.V.note("ghost_ensures on " + con.Key + ": call-history instrumentation (call counter / last result), assumed at call sites")
	}
	return res
}

// calleePanics is the panic exit of a call: the callee's frame is havoc'd (it may have run arbitrarily far before
// panicking), the panic value is unknown except for what the callee's panic_ensures / always_ensures say about it
// (`panicval` in those clauses), and control leaves through the caller's panic exit.
func (t *tr) calleePanics(con *Contract, sc *specCtx, pre Env, vars map[string]Term, pos token.Pos) {
	t.havocModifies(con, sc, pre, pos)
	pv := t.fresh(t.panicVal)
	t.assume(neq(pv, intLit(0)))
	vars2 := map[string]Term{}
	for k, v := range vars {
		vars2[k] = v
	}
	vars2["panicval"] = pv
	sc2 := &specCtx{pkg: sc.pkg, vars: vars2, cur: t.cur.Env, old: pre, where: con.File, qn: sc.qn}
	for _, kind := range []string{"panic_ensures", "always_ensures"} {
		for _, cl := range con.clauses(kind) {
			if calleeInternal(cl.Text) {
				continue
			}
			sc2.where = cl.Where
			t.assume(t.spec(cl.Expr, sc2))
		}
	}
	t.panicExit(pos)
}

func identOf(e ast.Expr) *ast.Ident {
	id, _ := ast.Unparen(e).(*ast.Ident)
	return id
}

// runLoopDefer is the exit-time effect of a deferred call that was registered inside a loop.
func (t *tr) runLoopDefer(d *deferRec) {
	ct := t.resolveCall(d.call)
	if ct == nil || ct.sig == nil {
		t.errorf(d.pos, "cannot resolve deferred callee")
		return
	}
	con := t.V.CS.Funcs[ct.key]
	if con == nil {
		t.errorf(d.pos, "no contract for callee %s", ct.key)
		t.V.missing[ct.key]++
		return
	}
	con.Used = true
	pkg := t.V.Pkgs[con.PkgPath]
	// unknown receiver and arguments
	var args []Term
	for i := 0; i < ct.sig.Params().Len(); i++ {
		args = append(args, t.havocTerm("loopdefer$arg", ct.sig.Params().At(i).Type()))
	}
	haveRecv := ct.sig.Recv() != nil
	var recv Term
	if haveRecv {
		recv = t.havocTerm("loopdefer$recv", ct.sig.Recv().Type())
	}
	vars := t.bindParams(con, ct.sig, haveRecv, recv, args)
	pre := t.cur.Env.clone()
	sc := &specCtx{pkg: pkg, vars: vars, cur: pre, old: pre, where: con.File, qn: t.qn()}
	if con.MayPanic || len(con.clauses("panics_if")) > 0 {
		if t.mayPanicOut() {
			bs := t.fork(2)
			t.cur = bs[0]
			pv := t.fresh(t.panicVal)
			t.assume(neq(pv, intLit(0)))
			t.panicExit(d.pos)
			t.cur = bs[1]
		} else {
			t.assert(tFalse, "nopanic/"+ct.key, "", d.pos, "deferred callee "+ct.key+" may panic and the panic is not contained")
		}
	}
	if con.NoFrame {
		t.havocModifies(con, sc, pre, d.pos)
		return
	}
	for _, l := range t.modLocs(con.clauses("modifies"), sc) {
		if l.heap == t.allocTop {
			continue
		}
		t.fresh(l.heap) // any object of that heap, any number of times
	}
	oldTop := t.read(t.allocTop)
	top := t.fresh(t.allocTop)
	t.assume(ge(top, oldTop))
}

// effectFreeByDefault: standard logging and formatting entry points. They get an implicit contract "modifies
// nothing, any result, does not panic" when no contract file mentions them.
func effectFreeByDefault(key string) bool {
	for _, p := range []string{
		"log.Printf", "log.Print", "log.Println",
		"github.com/grailbio/base/log.Printf", "github.com/grailbio/base/log.Print", "github.com/grailbio/base/log.Debugf",
		"github.com/grailbio/base/log.Errorf", "github.com/grailbio/base/log.Level.Printf", "github.com/grailbio/base/log.Level.Print",
		"github.com/grailbio/base/log.Level.Println", "github.com/grailbio/base/log.Error.Printf", "github.com/grailbio/base/log.Debug.Printf",
		"fmt.Sprintf", "fmt.Sprint", "fmt.Sprintln", "fmt.Fprintf", "fmt.Fprintln", "fmt.Fprint", "fmt.Printf", "fmt.Println",
		"strings.Join", "strings.Repeat", "strings.TrimSpace", "strings.ToLower", "strings.ToUpper", "strings.HasPrefix", "strings.HasSuffix", "strings.Contains",
		"strconv.Itoa", "strconv.Quote", "strconv.FormatInt",
	} {
		if key == p {
			return true
		}
	}
	return false
}

var calleeInternalRe = regexp.MustCompile(`at_loop\(|\bpanicked\b|\breturned[0-9]`)

// calleeInternal: the clause speaks about an intermediate state or the exit path of the callee itself.
func calleeInternal(text string) bool { return calleeInternalRe.MatchString(text) }

func lastName(key string) string {
	if i := strings.LastIndexAny(key, ".:"); i >= 0 {
		return key[i+1:]
	}
	return key
}

func (t *tr) qn() *int {
	return &t.qcount
}

// mayPanicOut reports whether a panic may leave the current unit (declared) or is caught by a deferred recover.
func (t *tr) mayPanicOut() bool {
	if t.inDefer {
		return t.u.Contract != nil && (t.u.Contract.MayPanic || len(t.u.Contract.clauses("panics_if")) > 0)
	}
	return t.hasRecover || (t.u.Contract != nil && (t.u.Contract.MayPanic || len(t.u.Contract.clauses("panics_if")) > 0))
}

func (t *tr) panicExit(pos token.Pos) {
	if t.cur == nil {
		return
	}
	t.panics = append(t.panics, t.cur)
	t.cur = nil
}

// ---- modifies / frames ----

// frameLoc is one modifiable location set on a heap variable.
type frameLoc struct {
	heap  *Var
	whole bool
	ref   Term // object reference (cell r == ref)
	lo, hi Term // for element heaps: absolute index range [lo,hi); Sort=="" when the whole object
	hasRange bool
}

// modLocs evaluates the modifies clauses of con in spec context sc (pre-state).
func (t *tr) modLocs(clauses []*Clause, sc *specCtx) []frameLoc {
	var out []frameLoc
	for _, cl := range clauses {
		sc.where = cl.Where
		for _, l := range cl.Locs {
			out = append(out, t.modLoc(l, sc)...)
		}
	}
	return out
}

func (t *tr) modLoc(l ast.Expr, sc *specCtx) []frameLoc {
	l = ast.Unparen(l)
	switch x := l.(type) {
	case *ast.Ident:
		// global, ghost var, map variable, pointer variable (all fields)
		if _, isVar := sc.vars[x.Name]; !isVar {
			if d, ok := t.V.ghostVars[x.Name]; ok {
				return []frameLoc{{heap: t.ghostVar(d), whole: true}}
			}
			if sc.pkg != nil {
				if o, ok := sc.pkg.Types.Scope().Lookup(x.Name).(*types.Var); ok {
					return []frameLoc{{heap: t.globalVar(o), whole: true}}
				}
			}
		}
		v := t.spec(x, sc)
		return t.modObject(v, sc)
	case *ast.SelectorExpr:
		// GhostOwner.field => the whole ghost-field heap
		if id, ok := x.X.(*ast.Ident); ok {
			if d, ok := t.V.ghostFlds[x.Sel.Name]; ok && d.Owner == id.Name {
				if _, isVar := sc.vars[id.Name]; !isVar {
					GT := t.resolveType(d.Type, t.V.Pkgs[d.PkgPath])
					return []frameLoc{{heap: t.ghostFieldHeap(d, t.V.W.sortOf(GT)), whole: true}}
				}
			}
		}
		// Type.field => whole heap
		if T := t.resolveType(x.X, sc.pkg); T != nil {
			if id, ok := x.X.(*ast.Ident); !ok || sc.vars[id.Name].S == "" {
				named, st, _ := derefStruct(T)
				if st != nil {
					if idx := fieldIndexByName(st, x.Sel.Name); idx >= 0 {
						return []frameLoc{{heap: t.fieldHeap(named, st, idx), whole: true}}
					}
				}
				if d, ok := t.V.ghostFlds[x.Sel.Name]; ok {
					GT := t.resolveType(d.Type, t.V.Pkgs[d.PkgPath])
					return []frameLoc{{heap: t.ghostFieldHeap(d, t.V.W.sortOf(GT)), whole: true}}
				}
			}
		}
		if id, ok := x.X.(*ast.Ident); ok {
			if _, isVar := sc.vars[id.Name]; !isVar {
				if p := t.V.importedPkg(sc.pkg, id.Name, x.Sel.Name); p != nil {
					if o, ok := p.Types.Scope().Lookup(x.Sel.Name).(*types.Var); ok {
						return []frameLoc{{heap: t.globalVar(o), whole: true}}
					}
				}
			}
		}
		base := t.spec(x.X, sc)
		named, st, isPtr := derefStruct(base.T)
		if st != nil && isPtr {
			if path := findFieldPath(base.T, x.Sel.Name, 0); len(path) >= 1 {
				// only the first step addresses a heap; nested value fields live in that cell
				return []frameLoc{{heap: t.fieldHeap(named, st, path[0]), ref: base}}
			}
		}
		if d, ok := t.V.ghostFlds[x.Sel.Name]; ok && base.Sort == SInt {
			GT := t.resolveType(d.Type, t.V.Pkgs[d.PkgPath])
			return []frameLoc{{heap: t.ghostFieldHeap(d, t.V.W.sortOf(GT)), ref: base}}
		}
		t.specErr(sc, "modifies: cannot resolve location %s", exprString(l))
	case *ast.StarExpr:
		p := t.spec(x.X, sc)
		return t.modObject(p, sc)
	case *ast.IndexExpr:
		// G[i] where G is a ghost variable of array sort: one cell of G
		if id, ok := x.X.(*ast.Ident); ok {
			if _, isVar := sc.vars[id.Name]; !isVar {
				if d, ok := t.V.ghostVars[id.Name]; ok {
					gv := t.ghostVar(d)
					if strings.HasPrefix(gv.Sort, "(Array ") {
						return []frameLoc{{heap: gv, ref: t.spec(x.Index, sc)}}
					}
				}
			}
		}
		a := t.spec(x.X, sc)
		i := t.spec(x.Index, sc)
		if a.Sort == SSlice && a.T != nil {
			es := t.V.W.sortOf(a.T.Underlying().(*types.Slice).Elem())
			eT := types.Type(a.T.Underlying().(*types.Slice).Elem())
			lo := add(slOff(a), i)
			return []frameLoc{{heap: t.elemHeapT(eT, es), ref: slArr(a), lo: lo, hi: add(lo, intLit(1)), hasRange: true}}
		}
		if m, ok := typeAsMap(a.T); ok {
			return t.modMap(m, a)
		}
		t.specErr(sc, "modifies: cannot resolve location %s", exprString(l))
	case *ast.SliceExpr:
		a := t.spec(x.X, sc)
		if a.Sort == SSlice && a.T != nil {
			es := t.V.W.sortOf(a.T.Underlying().(*types.Slice).Elem())
			eT := types.Type(a.T.Underlying().(*types.Slice).Elem())
			lo, hi := Term(intLit(0)), slLen(a)
			if x.Low != nil {
				lo = t.spec(x.Low, sc)
			}
			if x.High != nil {
				hi = t.spec(x.High, sc)
			}
			return []frameLoc{{heap: t.elemHeapT(eT, es), ref: slArr(a), lo: add(slOff(a), lo), hi: add(slOff(a), hi), hasRange: true}}
		}
		if m, ok := typeAsMap(a.T); ok {
			return t.modMap(m, a)
		}
		t.specErr(sc, "modifies: cannot resolve location %s", exprString(l))
	case *ast.CallExpr:
		if id, ok := x.Fun.(*ast.Ident); ok {
			switch id.Name {
			case "elems": // elems(T): every slice element of type T anywhere
				if T := t.resolveType(x.Args[0], sc.pkg); T != nil {
					return []frameLoc{{heap: t.elemHeapT(T, t.V.W.sortOf(T)), whole: true}}
				}
			case "allfields": // allfields(T): every field of every T object
				if T := t.resolveType(x.Args[0], sc.pkg); T != nil {
					named, st, _ := derefStruct(T)
					var out []frameLoc
					if st != nil {
						for i := 0; i < st.NumFields(); i++ {
							out = append(out, frameLoc{heap: t.fieldHeap(named, st, i), whole: true})
						}
					}
					return out
				}
			case "maps": // maps(K, V): all maps of that type
				K, V := t.resolveType(x.Args[0], sc.pkg), t.resolveType(x.Args[1], sc.pkg)
				if K != nil && V != nil {
					d, v, ln := t.mapHeaps(types.NewMap(K, V))
					return []frameLoc{{heap: d, whole: true}, {heap: v, whole: true}, {heap: ln, whole: true}}
				}
			case "cells": // cells(T): every *T cell (non-struct pointee)
				if T := t.resolveType(x.Args[0], sc.pkg); T != nil {
					return []frameLoc{{heap: t.ptrHeap(T), whole: true}}
				}
			}
		}
		t.specErr(sc, "modifies: cannot resolve location %s", exprString(l))
	default:
		t.specErr(sc, "modifies: unsupported location %s", exprString(l))
	}
	return nil
}

func (t *tr) modMap(m *types.Map, a Term) []frameLoc {
	d, v, ln := t.mapHeaps(m)
	return []frameLoc{{heap: d, ref: a}, {heap: v, ref: a}, {heap: ln, ref: a}}
}

// modObject: all contents of the object v refers to (struct fields, pointee cell, map, slice elements).
func (t *tr) modObject(v Term, sc *specCtx) []frameLoc {
	if v.T == nil {
		t.specErr(sc, "modifies: untyped location %s", v.S)
		return nil
	}
	switch u := v.T.Underlying().(type) {
	case *types.Pointer:
		if st, ok := u.Elem().Underlying().(*types.Struct); ok {
			var out []frameLoc
			for i := 0; i < st.NumFields(); i++ {
				out = append(out, frameLoc{heap: t.fieldHeap(u.Elem(), st, i), ref: v})
			}
			return out
		}
		return []frameLoc{{heap: t.ptrHeap(u.Elem()), ref: v}}
	case *types.Map:
		return t.modMap(u, v)
	case *types.Slice:
		es := t.V.W.sortOf(u.Elem())
		eT := types.Type(u.Elem())
		return []frameLoc{{heap: t.elemHeapT(eT, es), ref: slArr(v), lo: slOff(v), hi: add(slOff(v), slLen(v)), hasRange: true}}
	}
	t.specErr(sc, "modifies: %s is not an object", v.S)
	return nil
}

// havocModifies gives every heap in con's modifies set a new version constrained to agree with the old one outside the set.
func (t *tr) havocModifies(con *Contract, sc *specCtx, pre Env, pos token.Pos) {
	if con.NoFrame {
		// everything may change: havoc all heap variables known so far
		// `preserves` lists heaps that even an unknown-frame callee cannot touch (e.g. unexported executor state)
		keep := map[*Var]bool{}
		for _, l := range t.modLocs(con.clauses("preserves"), sc) {
			keep[l.heap] = true
		}
		// `flag keeps_own k1,k2` on the unit: these unknown-frame callees cannot reach the fields of the unit's own
		// receiver type (an unexported type of a package the callee does not import) — listed as an assumption
		ownPrefix := ""
		if t.u.Contract != nil && t.u.Contract.Flags["keeps_own"] != "" && t.u.Sig != nil && t.u.Sig.Recv() != nil {
			for _, k := range strings.Split(t.u.Contract.Flags["keeps_own"], ",") {
				if strings.TrimSpace(k) == con.Key {
					rt := t.u.Sig.Recv().Type()
					if p, ok := rt.Underlying().(*types.Pointer); ok {
						rt = p.Elem()
					}
					ownPrefix = "H$" + typeKey(rt) + "."
					t.V.note("flag keeps_own on " + t.u.Key + ": " + con.Key + " assumed not to modify the fields of " + typeKey(rt))
				}
			}
		}
		for _, v := range t.allVars {
			if ownPrefix != "" && strings.HasPrefix(v.Name, ownPrefix) {
				continue
			}
			if v.Heap && !keep[v] {
				if strings.HasPrefix(v.Name, "G$") && v.T != nil && types.TypeString(v.T, nil) == "error" {
					// package-level error variables (sentinels such as sliceio.EOF) are treated as constants
					continue
				}
				t.fresh(v)
			}
		}
		t.V.note("modifies unknown on " + con.Key + ": all heaps havoc'd at its call sites")
		top := t.fresh(t.allocTop)
		t.assume(ge(top, t.readIn(pre, t.allocTop)))
		return
	}
	locs := t.modLocs(con.clauses("modifies"), sc)
	for _, l := range locs {
		if l.heap == t.allocTop {
			continue
		}
		old := t.read(l.heap)
		if l.whole {
			t.fresh(l.heap)
			continue
		}
		if !l.hasRange {
			cell := t.havocSort("cell", arrayValSort(l.heap.Sort))
			nv := t.fresh(l.heap)
			t.assume(eq(nv, store(old, l.ref, cell)))
			continue
		}
		inner := t.havocSort("elems", arrayValSort(l.heap.Sort))
		nv := t.fresh(l.heap)
		t.assume(eq(nv, store(old, l.ref, inner)))
		*sc.qn++
		i := Term{S: fmt.Sprintf("i$f%d", *sc.qn), Sort: SInt}
		t.assume(forallT([]Term{i}, or(and(le(l.lo, i), lt(i, l.hi)), eq(sel(inner, i), sel(sel(old, l.ref), i)))))
	}
	if !con.Pure && con.Flags["noalloc"] != "true" {
		oldTop := t.read(t.allocTop)
		top := t.fresh(t.allocTop)
		t.assume(ge(top, oldTop))
	}
}

// frameFormula states that heap h changed between env a and env b only inside locs (or at cells fresh since a).
func (t *tr) frameFormula(h *Var, a, b Env, locs []frameLoc, qn *int) Term {
	if a[h] == b[h] {
		return tTrue
	}
	var mine []frameLoc
	for _, l := range locs {
		if l.heap == h {
			if l.whole {
				return tTrue
			}
			mine = append(mine, l)
		}
	}
	ha, hb := h.at(a[h]), h.at(b[h])
	if !strings.HasPrefix(h.Sort, "(Array ") {
		return eq(ha, hb)
	}
	*qn++
	r := Term{S: fmt.Sprintf("r$f%d", *qn), Sort: arrayIdxSort(h.Sort)}
	var allowed []Term
	if r.Sort == SInt {
		// fresh objects may change freely; negative references are interior field addresses, i.e. mirrors of a
		// struct-typed field whose own heap is frame-checked on write-back
		allowed = append(allowed, gt(r, t.readIn(a, t.allocTop)), lt(r, intLit(0)))
	}
	isElem := strings.HasPrefix(h.Name, "E$")
	if !isElem {
		for _, l := range mine {
			allowed = append(allowed, eq(r, l.ref))
		}
		return forallT([]Term{r}, or(append(allowed, eq(sel(ha, r), sel(hb, r)))...))
	}
	i := Term{S: fmt.Sprintf("i$f%d", *qn), Sort: SInt}
	for _, l := range mine {
		if l.hasRange {
			allowed = append(allowed, and(eq(r, l.ref), le(l.lo, i), lt(i, l.hi)))
		} else {
			allowed = append(allowed, eq(r, l.ref))
		}
	}
	return forallT([]Term{r, i}, or(append(allowed, eq(sel(sel(ha, r), i), sel(sel(hb, r), i)))...))
}

// assumeFrameInvariant: at a loop head, heaps havoc'd by the loop still satisfy the function's frame w.r.t. the entry state.
func (t *tr) assumeFrameInvariant(preLoop Env, mod []*Var) {
	if t.u.Contract == nil || t.u.Contract.NoFrame {
		return
	}
	entry := t.root.Env
	sc := t.unitSpecCtx(entry)
	sc.cur = entry
	locs := t.modLocs(t.u.Contract.clauses("modifies"), sc)
	for _, v := range mod {
		if !v.Heap || v == t.allocTop {
			continue
		}
		f := t.frameFormula(v, entryEnvFor(entry), t.cur.Env, locs, t.qn())
		t.assume(f)
	}
	// loop-level modifies clauses (optional): cells outside keep their pre-loop value
	_ = preLoop
}

func entryEnvFor(e Env) Env { return Env{} }

// ---- builtins ----

func (t *tr) evBuiltin(name string, c *ast.CallExpr) []Term {
	W := t.V.W
	one := func(r Term) []Term { return []Term{r} }
	switch name {
	case "len":
		a := t.ev(c.Args[0])
		r, ok := t.lenOf(t.cur.Env, a)
		if !ok {
			t.errorf(c.Pos(), "len of unsupported type")
			return one(intLit(0))
		}
		if m, isMap := typeAsMap(a.T); isMap {
			// cardinality facts: len >= 0, and an empty map has no keys
			dom, _, _ := t.mapHeaps(m)
			t.qcount++
			kq := Term{S: fmt.Sprintf("k$l%d", t.qcount), Sort: W.sortOf(m.Key())}
			t.assume(and(ge(r, intLit(0)), implies(eq(r, intLit(0)), forallT([]Term{kq}, not(sel(sel(t.read(dom), a), kq))))))
			t.assume(implies(eq(a, intLit(0)), eq(r, intLit(0))))
		}
		return one(r)
	case "cap":
		a := t.ev(c.Args[0])
		if a.Sort == SSlice {
			r := slCap(a)
			r.T = types.Typ[types.Int]
			return one(r)
		}
		if arr, ok := a.T.Underlying().(*types.Array); ok {
			return one(intLit(arr.Len()))
		}
		W.declFun("chancap", []string{SInt}, SInt)
		return one(app("chancap", SInt, a))
	case "panic":
		pvv := t.evTo(c.Args[0], types.NewInterfaceType(nil, nil))
		if t.cur != nil {
			t.assign(t.panicVal, pvv)
		}
		if t.mayPanicOut() {
			t.panicExit(c.Pos())
		} else {
			t.assert(tFalse, "nopanic/explicit", "", c.Pos(), "explicit panic is reachable but the contract does not allow panicking")
			t.cur = nil
		}
		return nil
	case "recover":
		if !t.inDefer {
			return one(Term{S: "0", Sort: SInt, T: t.typeOf(c)})
		}
		was := t.read(t.panicking)
		val := ite(was, t.read(t.panicVal), intLit(0))
		val.T = t.typeOf(c)
		t.assign(t.panicking, tFalse)
		return one(val)
	case "new":
		T := t.typeOf(c.Args[0])
		p := t.alloc()
		p.T = types.NewPointer(T)
		t.storePtr(p, W.zero(T), c.Pos())
		return one(p)
	case "make":
		T := t.typeOf(c.Args[0])
		switch u := T.Underlying().(type) {
		case *types.Slice:
			n := t.ev(c.Args[1])
			cp := n
			if len(c.Args) > 2 {
				cp = t.ev(c.Args[2])
				t.safety(and(le(intLit(0), n), le(n, cp)), "safety/make", c.Pos(), "make: len out of range")
			} else {
				t.safety(le(intLit(0), n), "safety/make", c.Pos(), "make: negative length")
			}
			arr := t.alloc()
			es := W.sortOf(u.Elem())
			eT := types.Type(u.Elem())
			h := t.elemHeapT(eT, es)
			zeroArr := Term{S: fmt.Sprintf("((as const %s) %s)", arrSort(SInt, es), W.zeroOfSort(es, u.Elem()).S), Sort: arrSort(SInt, es)}
			t.heapStore(h, arr, zeroArr)
			r := mkSlice(arr, intLit(0), n, cp)
			r.T = T
			return one(r)
		case *types.Map:
			for _, a := range c.Args[1:] {
				t.ev(a)
			}
			m := t.alloc()
			m.T = T
			dom, _, ln := t.mapHeaps(u)
			ks := W.sortOf(u.Key())
			t.heapStore(dom, m, Term{S: fmt.Sprintf("((as const %s) false)", arrSort(ks, SBool)), Sort: arrSort(ks, SBool)})
			t.heapStore(ln, m, intLit(0))
			return one(m)
		case *types.Chan:
			for _, a := range c.Args[1:] {
				t.ev(a)
			}
			ch := t.alloc()
			ch.T = T
			return one(ch)
		}
	case "append":
		return one(t.evAppend(c))
	case "copy":
		dst := t.ev(c.Args[0])
		src := t.ev(c.Args[1])
		if dst.Sort != SSlice || src.Sort != SSlice {
			t.errorf(c.Pos(), "copy from string not supported")
			return one(t.havocTerm("copy", types.Typ[types.Int]))
		}
		n := app("imin", SInt, slLen(dst), slLen(src))
		n.T = types.Typ[types.Int]
		es := W.sortOf(dst.T.Underlying().(*types.Slice).Elem())
		eT := types.Type(dst.T.Underlying().(*types.Slice).Elem())
		h := t.elemHeapT(eT, es)
		old := t.read(h)
		inner := t.havocSort("copied", arrSort(SInt, es))
		t.heapStore(h, slArr(dst), inner)
		t.qcount++
		i := Term{S: fmt.Sprintf("i$c%d", t.qcount), Sort: SInt}
		srcAt := sel(sel(old, slArr(src)), add(slOff(src), sub(i, slOff(dst))))
		t.assume(forallT([]Term{i}, eq(sel(inner, i), ite(and(le(slOff(dst), i), lt(i, add(slOff(dst), n))), srcAt, sel(sel(old, slArr(dst)), i)))))
		return one(n)
	case "delete":
		m := t.ev(c.Args[0])
		mt := t.typeOf(c.Args[0]).Underlying().(*types.Map)
		k := t.evTo(c.Args[1], mt.Key())
		dom, _, ln := t.mapHeaps(mt)
		d := sel(t.read(dom), m)
		present := and(neq(m, intLit(0)), sel(d, k))
		l := sel(t.read(ln), m)
		t.heapStore(ln, m, ite(present, sub(l, intLit(1)), l))
		t.heapStore(dom, m, store(d, k, tFalse))
		return nil
	case "close":
		t.ev(c.Args[0])
		return nil
	case "min", "max":
		a := t.ev(c.Args[0])
		for _, x := range c.Args[1:] {
			b := t.ev(x)
			r := app("i"+name, SInt, a, b)
			r.T = a.T
			a = r
		}
		return one(a)
	case "unsafe.Add":
		// pointer arithmetic is abstract: padd(p, x) (see trusted/frame.contracts)
		pv := t.ev(c.Args[0])
		n := t.ev(c.Args[1])
		W.declFun("sf$padd", []string{SInt, SInt}, SInt)
		r := app("sf$padd", SInt, pv, n)
		r.T = t.typeOf(c)
		return one(r)
	case "print", "println":
		for _, a := range c.Args {
			t.ev(a)
		}
		return nil
	}
	t.errorf(c.Pos(), "unsupported builtin %s", name)
	return t.havocResults(c)
}

func (t *tr) evAppend(c *ast.CallExpr) Term {
	W := t.V.W
	s := t.ev(c.Args[0])
	T := t.typeOf(c)
	st, ok := T.Underlying().(*types.Slice)
	if !ok {
		t.errorf(c.Pos(), "append: unsupported")
		return t.havocTerm("append", T)
	}
	es := W.sortOf(st.Elem())
	eT := types.Type(st.Elem())
	h := t.elemHeapT(eT, es)
	if c.Ellipsis.IsValid() {
		// append(s, xs...)
		xs := t.ev(c.Args[1])
		if xs.Sort != SSlice {
			t.errorf(c.Pos(), "append of string not supported")
			return t.havocTerm("append", T)
		}
		k := slLen(xs)
		newLen := add(slLen(s), k)
		fits := le(newLen, slCap(s))
		old := t.read(h)
		// result slice header
		fresh := t.alloc()
		ncap := t.havocSort("appcap", SInt)
		t.assume(ge(ncap, newLen))
		res := ite(fits, mkSlice(slArr(s), slOff(s), newLen, slCap(s)), mkSlice(fresh, intLit(0), newLen, ncap))
		res.T = T
		inner := t.havocSort("appended", arrSort(SInt, es))
		t.qcount++
		i := Term{S: fmt.Sprintf("i$a%d", t.qcount), Sort: SInt}
		base := slOff(res)
		// contents of the (possibly new) backing array
		oldInner := sel(old, slArr(res))
		srcOld := sel(sel(old, slArr(s)), add(slOff(s), sub(i, base)))
		srcNew := sel(sel(old, slArr(xs)), add(slOff(xs), sub(sub(i, base), slLen(s))))
		t.assume(forallT([]Term{i}, eq(sel(inner, i),
			ite(and(le(add(base, slLen(s)), i), lt(i, add(base, newLen))), srcNew,
				ite(and(not(fits), le(base, i), lt(i, add(base, slLen(s)))), srcOld,
					ite(fits, sel(oldInner, i), W.zeroOfSort(es, st.Elem())))))))
		t.heapStore(h, slArr(res), inner)
		return res
	}
	var els []Term
	for _, a := range c.Args[1:] {
		els = append(els, t.evTo(a, st.Elem()))
	}
	k := int64(len(els))
	if k == 0 {
		return s
	}
	newLen := add(slLen(s), intLit(k))
	fits := le(newLen, slCap(s))
	old := t.read(h)
	fresh := t.alloc()
	ncap := t.havocSort("appcap", SInt)
	t.assume(ge(ncap, newLen))
	res := ite(fits, mkSlice(slArr(s), slOff(s), newLen, slCap(s)), mkSlice(fresh, intLit(0), newLen, ncap))
	res.T = T
	// in place: store elements after len; fresh: copy old then store
	inPlace := sel(old, slArr(s))
	for j, e := range els {
		inPlace = store(inPlace, add(add(slOff(s), slLen(s)), intLit(int64(j))), e)
	}
	copied := t.havocSort("appended", arrSort(SInt, es))
	t.qcount++
	i := Term{S: fmt.Sprintf("i$a%d", t.qcount), Sort: SInt}
	t.assume(forallT([]Term{i}, implies(and(le(intLit(0), i), lt(i, slLen(s))), eq(sel(copied, i), sel(sel(old, slArr(s)), add(slOff(s), i))))))
	if t.u.Contract != nil && t.u.Contract.Flags["append_patterns"] == "true" {
		// the same fact indexed by the source position, with a trigger on the source array: lets a solver carry an
		// existential witness found in the old contents over to the copy
		t.qcount++
		a := Term{S: fmt.Sprintf("a$a%d", t.qcount), Sort: SInt}
		src := sel(sel(old, slArr(s)), a)
		body := implies(and(le(slOff(s), a), lt(a, add(slOff(s), slLen(s)))), eq(sel(copied, sub(a, slOff(s))), src))
		t.assume(Term{S: fmt.Sprintf("(forall ((%s Int)) (! %s :pattern (%s)))", a.S, body.S, src.S), Sort: SBool})
	}
	for j, e := range els {
		copied = store(copied, add(slLen(s), intLit(int64(j))), e)
	}
	t.heapStore(h, slArr(res), ite(fits, inPlace, copied))
	return res
}

// ---- defer / inline literals ----

func (t *tr) deferStmt(x *ast.DeferStmt) {
	if len(t.loops) > 0 {
		// A deferred call registered inside a loop runs at exit once per registration, on the objects of that
		// iteration. It is over-approximated: if registered at all, everything its contract allows it to modify
		// (on any object) is havoc'd at exit, nothing about its postcondition is assumed, and it may panic if its
		// contract says so.
		if _, isLit := ast.Unparen(x.Call.Fun).(*ast.FuncLit); isLit {
			t.errorf(x.Pos(), "deferred function literal inside a loop is not supported")
			return
		}
		for _, a := range x.Call.Args {
			t.ev(a)
		}
		if se, ok := ast.Unparen(x.Call.Fun).(*ast.SelectorExpr); ok {
			if _, isPkg := t.info.Uses[identOf(se.X)].(*types.PkgName); !isPkg {
				t.ev(se.X)
			}
		}
		if t.cur == nil {
			return
		}
		d := &deferRec{call: x.Call, pos: x.Pos(), inLoop: true}
		d.flag = t.newVar(fmt.Sprintf("deferred$%s%d", t.deferPrefix, len(t.defers)+1), SBool, types.Typ[types.Bool], false)
		t.assign(d.flag, tTrue)
		t.defers = append(t.defers, d)
		return
	}
	d := &deferRec{call: x.Call, pos: x.Pos()}
	// arguments are evaluated at the defer statement
	if _, isLit := ast.Unparen(x.Call.Fun).(*ast.FuncLit); !isLit {
		// receiver and arguments are evaluated now; we snapshot them into temporaries by evaluating at run time
		// with the environment of the defer point (see runDefers).
		d.args = nil
	}
	d.flag = t.newVar(fmt.Sprintf("deferred$%s%d", t.deferPrefix, len(t.defers)+1), SBool, types.Typ[types.Bool], false)
	d.env = t.cur.Env.clone()
	// receiver and arguments of a deferred (non-literal) call are evaluated now: snapshot the locals they mention
	if _, isLit := ast.Unparen(x.Call.Fun).(*ast.FuncLit); !isLit {
		d.snap = map[types.Object]*Var{}
		ast.Inspect(x.Call, func(n ast.Node) bool {
			if id, ok := n.(*ast.Ident); ok {
				if o, ok := t.info.Uses[id].(*types.Var); ok && !o.IsField() {
					if lv, ok := t.vars[o]; ok && !lv.Heap && d.snap[o] == nil {
						sv := t.tmpVar("defersnap$"+o.Name(), lv.Sort, lv.T)
						t.assign(sv, t.read(lv))
						d.snap[o] = sv
					}
				}
			}
			return true
		})
	}
	t.assign(d.flag, tTrue)
	t.defers = append(t.defers, d)
}

// inlineLit inlines the body of a function literal called with args (no recursion, returns flow to the join).
func (t *tr) inlineLit(lit *ast.FuncLit, args []ast.Expr, pos token.Pos) []Term {
	sig := t.typeOf(lit).(*types.Signature)
	// bind parameters
	var vals []Term
	for i, a := range args {
		if i < sig.Params().Len() {
			vals = append(vals, t.evTo(a, sig.Params().At(i).Type()))
		}
	}
	i := 0
	for _, fl := range lit.Type.Params.List {
		for _, n := range fl.Names {
			if i < len(vals) {
				t.defineIdent(n, vals[i])
			}
			i++
		}
	}
	// results
	savedResults, savedReturns := t.results, t.returns
	savedLoops := t.loops
	savedSig := t.u.Sig
	t.loops = nil
	t.results = nil
	t.returns = nil
	for j := 0; j < sig.Results().Len(); j++ {
		rv := t.tmpVar("litres", t.V.W.sortOf(sig.Results().At(j).Type()), sig.Results().At(j).Type())
		t.results = append(t.results, rv)
	}
	if lit.Type.Results != nil {
		j := 0
		for _, fl := range lit.Type.Results.List {
			for _, n := range fl.Names {
				if o := t.info.Defs[n]; o != nil {
					t.vars[o] = t.results[j]
					t.assign(t.results[j], t.V.W.zero(o.Type()))
				}
				j++
			}
		}
	}
	uSig := *t.u
	t.u.Sig = sig
	// deferred calls of the literal itself run when the literal returns or panics, not at the unit's exit
	savedDefers, savedPrefix := t.defers, t.deferPrefix
	t.defers = nil
	t.litInst++
	t.deferPrefix = fmt.Sprintf("L%d$", t.litInst)
	panics0 := len(t.panics)
	{
		nd := 0
		ast.Inspect(lit.Body, func(n ast.Node) bool {
			switch n.(type) {
			case *ast.FuncLit:
				return false
			case *ast.DeferStmt:
				nd++
				fv := t.newVar(fmt.Sprintf("deferred$%s%d", t.deferPrefix, nd), SBool, types.Typ[types.Bool], false)
				t.assign(fv, tFalse)
			}
			return true
		})
	}
	t.stmts(lit.Body.List)
	t.u.Sig = savedSig
	_ = uSig
	ends := append([]*Block{t.cur}, t.returns...)
	t.cur = t.join(ends...)
	litDefers := t.defers
	runLitDefers := func() {
		for i := len(litDefers) - 1; i >= 0 && t.cur != nil; i-- {
			d := litDefers[i]
			bt, bf := t.branch(t.read(d.flag))
			t.cur = bt
			t.runDefer(d)
			t.cur = t.join(t.cur, bf)
		}
	}
	if len(litDefers) > 0 {
		t.defers = nil
		runLitDefers()
		if len(t.panics) > panics0 {
			raised := append([]*Block(nil), t.panics[panics0:]...)
			t.panics = t.panics[:panics0]
			save := t.cur
			t.cur = t.join(raised...)
			runLitDefers()
			if t.cur != nil {
				t.panics = append(t.panics, t.cur)
			}
			t.cur = save
		}
	}
	t.defers, t.deferPrefix = savedDefers, savedPrefix
	var res []Term
	if t.cur != nil {
		for _, rv := range t.results {
			res = append(res, t.read(rv))
		}
	} else {
		for j := 0; j < sig.Results().Len(); j++ {
			res = append(res, t.V.W.zero(sig.Results().At(j).Type()))
		}
	}
	t.results, t.returns, t.loops = savedResults, savedReturns, savedLoops
	return res
}

// applyCallsFlag evaluates the call that a higher-order callee makes to one of its function-typed arguments.
func (t *tr) applyCallsFlag(con *Contract, ct *callTarget, c *ast.CallExpr, spec string) []Term {
	e, err := parser.ParseExpr(spec)
	if err != nil {
		t.errorf(c.Pos(), "bad calls flag %q", spec)
		return nil
	}
	ce, ok := e.(*ast.CallExpr)
	if !ok {
		t.errorf(c.Pos(), "bad calls flag %q", spec)
		return nil
	}
	paramIdx := func(name string) int {
		for i := 0; i < ct.sig.Params().Len(); i++ {
			n := ct.sig.Params().At(i).Name()
			if i < len(con.ParamNames) {
				n = con.ParamNames[i]
			}
			if n == name {
				return i
			}
		}
		return -1
	}
	fid, ok := ce.Fun.(*ast.Ident)
	if !ok {
		t.errorf(c.Pos(), "bad calls flag %q", spec)
		return nil
	}
	fi := paramIdx(fid.Name)
	if fi < 0 || fi >= len(c.Args) {
		t.errorf(c.Pos(), "calls flag: no parameter %s", fid.Name)
		return nil
	}
	synth := &ast.CallExpr{Fun: c.Args[fi], Lparen: c.Lparen, Rparen: c.Rparen}
	for _, a := range ce.Args {
		aid, ok := a.(*ast.Ident)
		if !ok {
			t.errorf(c.Pos(), "calls flag: arguments must be parameter names")
			return nil
		}
		ai := paramIdx(aid.Name)
		if ai < 0 || ai >= len(c.Args) {
			t.errorf(c.Pos(), "calls flag: no parameter %s", aid.Name)
			return nil
		}
		synth.Args = append(synth.Args, c.Args[ai])
	}
	t.V.note("higher-order callee " + con.Key + ": assumed to call its function argument exactly once (flag calls)")
	return t.evCall(synth)
}

// fieldAddr returns the interior address of expression e when e is q.f with q a pointer to a struct.
func (t *tr) fieldAddr(e ast.Expr) (Term, bool) {
	se, ok := ast.Unparen(e).(*ast.SelectorExpr)
	if !ok {
		return Term{}, false
	}
	sl, ok := t.info.Selections[se]
	if !ok || sl.Kind() != types.FieldVal || len(sl.Index()) != 1 {
		return Term{}, false
	}
	bt := t.typeOf(se.X)
	if bt == nil {
		return Term{}, false
	}
	pt, ok := bt.Underlying().(*types.Pointer)
	if !ok {
		return Term{}, false
	}
	if _, ok := pt.Elem().Underlying().(*types.Struct); !ok {
		return Term{}, false
	}
	base := t.ev(se.X)
	name := "faddr$" + typeKey(pt.Elem()) + "." + se.Sel.Name
	t.V.W.declFun(name, []string{SInt}, SInt)
	t.V.W.declFun(name+"~inv", []string{SInt}, SInt)
	t.V.W.declFun("faddr~tag", []string{SInt}, SInt)
	t.V.W.addAxiom(name, fmt.Sprintf("(forall ((p Int)) (! (and (< (%s p) 0) (= (%s (%s p)) p) (= (faddr~tag (%s p)) %d)) :pattern ((%s p))))", sym(name), sym(name+"~inv"), sym(name), sym(name), faddrTag(name), sym(name)))
	return app(sym(name), SInt, base), true
}
