package main

import (
	"context"
	"encoding/json"
	"os"
)

func readOverlay(path string) (map[string][]byte, error) {
	var ov struct{ Replace map[string]string }
	b, err := os.ReadFile(path)
	if err != nil {
		return nil, err
	}
	if err := json.Unmarshal(b, &ov); err != nil {
		return nil, err
	}
	m := map[string][]byte{}
	for k, v := range ov.Replace {
		c, err := os.ReadFile(v)
		if err != nil {
			return nil, err
		}
		m[k] = c
	}
	return m, nil
}

func ctxBackground() context.Context { return context.Background() }
