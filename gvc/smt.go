package main

import (
	"fmt"
	"go/types"
	"math/big"
	"sort"
	"strings"
)

// Term is an SMT-LIB term with its sort and (when known) the Go type it denotes.
type Term struct {
	S    string
	Sort string
	T    types.Type
}

func (t Term) String() string { return t.S }

const (
	SInt   = "Int"
	SBool  = "Bool"
	SStr   = "Str"
	SFlt   = "Flt"
	SSlice = "Slice"
)

func arrSort(idx, val string) string { return "(Array " + idx + " " + val + ")" }

func app(op string, sort string, args ...Term) Term {
	var b strings.Builder
	b.WriteString("(")
	b.WriteString(op)
	for _, a := range args {
		b.WriteString(" ")
		b.WriteString(a.S)
	}
	b.WriteString(")")
	return Term{S: b.String(), Sort: sort}
}

func intLit(n int64) Term {
	if n < 0 {
		return Term{S: fmt.Sprintf("(- %d)", -n), Sort: SInt}
	}
	return Term{S: fmt.Sprintf("%d", n), Sort: SInt}
}

func bigLit(n *big.Int) Term {
	if n.Sign() < 0 {
		return Term{S: "(- " + new(big.Int).Neg(n).String() + ")", Sort: SInt}
	}
	return Term{S: n.String(), Sort: SInt}
}

var (
	tTrue  = Term{S: "true", Sort: SBool}
	tFalse = Term{S: "false", Sort: SBool}
)

func boolLit(b bool) Term {
	if b {
		return tTrue
	}
	return tFalse
}

func and(ts ...Term) Term {
	var xs []Term
	for _, t := range ts {
		if t.S == "true" {
			continue
		}
		if t.S == "false" {
			return tFalse
		}
		xs = append(xs, t)
	}
	if len(xs) == 0 {
		return tTrue
	}
	if len(xs) == 1 {
		return xs[0]
	}
	return app("and", SBool, xs...)
}

func or(ts ...Term) Term {
	var xs []Term
	for _, t := range ts {
		if t.S == "false" {
			continue
		}
		if t.S == "true" {
			return tTrue
		}
		xs = append(xs, t)
	}
	if len(xs) == 0 {
		return tFalse
	}
	if len(xs) == 1 {
		return xs[0]
	}
	return app("or", SBool, xs...)
}

func not(t Term) Term {
	if t.S == "true" {
		return tFalse
	}
	if t.S == "false" {
		return tTrue
	}
	return app("not", SBool, t)
}

func implies(a, b Term) Term {
	if a.S == "true" {
		return b
	}
	if a.S == "false" || b.S == "true" {
		return tTrue
	}
	return app("=>", SBool, a, b)
}

func eq(a, b Term) Term  { return app("=", SBool, a, b) }
func neq(a, b Term) Term { return not(eq(a, b)) }
func ite(c, a, b Term) Term {
	if c.S == "true" {
		return a
	}
	if c.S == "false" {
		return b
	}
	t := app("ite", a.Sort, c, a, b)
	t.T = a.T
	return t
}
func add(a, b Term) Term {
	if b.S == "0" {
		return a
	}
	if a.S == "0" {
		return b
	}
	return app("+", SInt, a, b)
}
func sub(a, b Term) Term {
	if b.S == "0" {
		return a
	}
	return app("-", SInt, a, b)
}
func mul(a, b Term) Term { return app("*", SInt, a, b) }
func le(a, b Term) Term  { return app("<=", SBool, a, b) }
func lt(a, b Term) Term  { return app("<", SBool, a, b) }
func ge(a, b Term) Term  { return app(">=", SBool, a, b) }
func gt(a, b Term) Term  { return app(">", SBool, a, b) }
func sel(a, i Term) Term {
	// (Array I V) -> V
	s := a.Sort
	vs := arrayValSort(s)
	return app("select", vs, a, i)
}
func store(a, i, v Term) Term { return app("store", a.Sort, a, i, v) }

// arrayValSort returns V for "(Array I V)".
func arrayValSort(s string) string {
	if !strings.HasPrefix(s, "(Array ") {
		panic("not an array sort: " + s)
	}
	inner := s[len("(Array ") : len(s)-1]
	// split the first sort
	depth := 0
	for i, c := range inner {
		switch c {
		case '(':
			depth++
		case ')':
			depth--
		case ' ':
			if depth == 0 {
				return inner[i+1:]
			}
		}
	}
	panic("bad array sort: " + s)
}

func arrayIdxSort(s string) string {
	inner := s[len("(Array ") : len(s)-1]
	depth := 0
	for i, c := range inner {
		switch c {
		case '(':
			depth++
		case ')':
			depth--
		case ' ':
			if depth == 0 {
				return inner[:i]
			}
		}
	}
	panic("bad array sort: " + s)
}

func forallT(vars []Term, body Term) Term {
	if len(vars) == 0 || body.S == "true" {
		return body
	}
	var b strings.Builder
	b.WriteString("(forall (")
	for _, v := range vars {
		fmt.Fprintf(&b, "(%s %s)", v.S, v.Sort)
	}
	b.WriteString(") ")
	b.WriteString(body.S)
	b.WriteString(")")
	return Term{S: b.String(), Sort: SBool}
}

func existsT(vars []Term, body Term) Term {
	var b strings.Builder
	b.WriteString("(exists (")
	for _, v := range vars {
		fmt.Fprintf(&b, "(%s %s)", v.S, v.Sort)
	}
	b.WriteString(") ")
	b.WriteString(body.S)
	b.WriteString(")")
	return Term{S: b.String(), Sort: SBool}
}

// slice projections
func slArr(s Term) Term { return app("arr", SInt, s) }
func slOff(s Term) Term { return app("off", SInt, s) }
func slLen(s Term) Term { return app("len", SInt, s) }
func slCap(s Term) Term { return app("cap", SInt, s) }
func mkSlice(arr, off, ln, cp Term) Term {
	return app("mkSlice", SSlice, arr, off, ln, cp)
}

func sym(name string) string {
	for _, c := range name {
		if !(c >= 'a' && c <= 'z' || c >= 'A' && c <= 'Z' || c >= '0' && c <= '9' || c == '_' || c == '!' || c == '$' || c == '.' || c == '@' || c == '#' || c == '~') {
			return "|" + strings.NewReplacer("|", "!", "\\", "!").Replace(name) + "|"
		}
	}
	return name
}

// ---- sorts of Go types ----

// World holds the global SMT vocabulary built while translating: struct datatypes,
// uninterpreted functions, string literals, axioms.
type World struct {
	structs    map[string]*structSort // by sort name
	structList []*structSort
	funs       map[string]string // name -> declaration text
	funOrder   []string
	axioms     []namedAxiom
	strLits    map[string]string // literal -> symbol
	strOrder   []string
	fltLits    map[string]string
	defs       []string // define-fun texts (ordered)
	defSet     map[string]bool
}

type namedAxiom struct {
	Name string
	F    string
}

type structSort struct {
	Name   string
	Fields []structField
	st     *types.Struct
}

type structField struct {
	Name string
	Sort string
	T    types.Type
}

func newWorld() *World {
	return &World{structs: map[string]*structSort{}, funs: map[string]string{}, strLits: map[string]string{}, fltLits: map[string]string{}, defSet: map[string]bool{}}
}

func (w *World) declFun(name string, args []string, ret string) {
	if _, ok := w.funs[name]; ok {
		return
	}
	w.funs[name] = fmt.Sprintf("(declare-fun %s (%s) %s)", sym(name), strings.Join(args, " "), ret)
	w.funOrder = append(w.funOrder, name)
}

func (w *World) addAxiom(name, f string) {
	for _, a := range w.axioms {
		if a.Name == name {
			return
		}
	}
	w.axioms = append(w.axioms, namedAxiom{name, f})
}

func (w *World) strLit(s string) Term {
	if n, ok := w.strLits[s]; ok {
		return Term{S: n, Sort: SStr, T: types.Typ[types.String]}
	}
	n := fmt.Sprintf("strlit%d", len(w.strOrder))
	if s == "" {
		n = "strempty"
	}
	w.strLits[s] = n
	w.strOrder = append(w.strOrder, s)
	return Term{S: n, Sort: SStr, T: types.Typ[types.String]}
}

func (w *World) fltLit(s string) Term {
	if n, ok := w.fltLits[s]; ok {
		return Term{S: n, Sort: SFlt}
	}
	n := fmt.Sprintf("fltlit%d", len(w.fltLits))
	w.fltLits[s] = n
	return Term{S: n, Sort: SFlt}
}

func typeKey(t types.Type) string {
	return types.TypeString(t, func(p *types.Package) string {
		return shortPkg(p.Path())
	})
}

func shortPkg(path string) string {
	const mod = "github.com/grailbio/bigslice"
	if path == mod {
		return "bigslice"
	}
	if strings.HasPrefix(path, mod+"/") {
		p := path[len(mod)+1:]
		p = strings.TrimPrefix(p, "internal/")
		return p
	}
	return path
}

// sortOf maps a Go type to an SMT sort, declaring struct datatypes on the way.
func (w *World) sortOf(t types.Type) string {
	switch u := t.Underlying().(type) {
	case *types.Basic:
		switch {
		case u.Info()&types.IsBoolean != 0:
			return SBool
		case u.Info()&types.IsInteger != 0:
			return SInt
		case u.Info()&types.IsString != 0:
			return SStr
		case u.Info()&types.IsFloat != 0:
			return SFlt
		case u.Kind() == types.UnsafePointer:
			return SInt
		case u.Kind() == types.UntypedNil:
			return SInt
		case u.Info()&types.IsComplex != 0:
			return SFlt
		}
		return SInt
	case *types.Pointer, *types.Map, *types.Chan, *types.Signature, *types.Interface:
		return SInt
	case *types.Slice:
		return SSlice
	case *types.Array:
		return arrSort(SInt, w.sortOf(u.Elem()))
	case *types.Struct:
		return w.structSortOf(t, u).Name
	case *types.Tuple:
		return SInt
	case *types.TypeParam:
		return SInt
	}
	return SInt
}

func (w *World) structSortOf(t types.Type, st *types.Struct) *structSort {
	var name string
	if n, ok := t.(*types.Named); ok {
		name = "S_" + shortPkg(pkgPathOf(n)) + "." + n.Obj().Name()
		if n.TypeArgs() != nil && n.TypeArgs().Len() > 0 {
			name += "[" + typeKey(n.TypeArgs().At(0)) + "]"
		}
	} else if a, ok := t.(*types.Alias); ok {
		return w.structSortOf(types.Unalias(a), st)
	} else {
		name = "S_anon_" + typeKey(st)
	}
	name = sym(strings.NewReplacer(" ", "_", "(", "<", ")", ">", "|", "!", "\"", "'", ";", ",").Replace(name))
	if s, ok := w.structs[name]; ok {
		return s
	}
	s := &structSort{Name: name, st: st}
	w.structs[name] = s
	for i := 0; i < st.NumFields(); i++ {
		f := st.Field(i)
		s.Fields = append(s.Fields, structField{Name: f.Name(), Sort: w.sortOf(f.Type()), T: f.Type()})
	}
	w.structList = append(w.structList, s) // appended after its dependencies
	return s
}

func pkgPathOf(n *types.Named) string {
	if n.Obj().Pkg() == nil {
		return ""
	}
	return n.Obj().Pkg().Path()
}

func (s *structSort) ctor() string { return sym("mk" + strings.Trim(s.Name, "|")) }
func (s *structSort) selName(i int) string {
	return sym(strings.Trim(s.Name, "|") + "~" + s.Fields[i].Name + fmt.Sprintf("~%d", i))
}
func (s *structSort) fieldIndex(name string) int {
	for i, f := range s.Fields {
		if f.Name == name {
			return i
		}
	}
	return -1
}

// zero value of a Go type
func (w *World) zero(t types.Type) Term {
	srt := w.sortOf(t)
	return w.zeroOfSort(srt, t)
}

func (w *World) zeroOfSort(srt string, t types.Type) Term {
	switch srt {
	case SInt:
		return Term{S: "0", Sort: SInt, T: t}
	case SBool:
		return Term{S: "false", Sort: SBool, T: t}
	case SStr:
		r := w.strLit("")
		r.T = t
		return r
	case SFlt:
		r := w.fltLit("0")
		r.T = t
		return r
	case SSlice:
		return Term{S: "(mkSlice 0 0 0 0)", Sort: SSlice, T: t}
	}
	if strings.HasPrefix(srt, "(Array ") {
		var et types.Type
		if t != nil {
			if a, ok := t.Underlying().(*types.Array); ok {
				et = a.Elem()
			}
		}
		z := w.zeroOfSort(arrayValSort(srt), et)
		return Term{S: fmt.Sprintf("((as const %s) %s)", srt, z.S), Sort: srt, T: t}
	}
	if s, ok := w.structs[srt]; ok {
		if len(s.Fields) == 0 {
			return Term{S: s.ctor(), Sort: srt, T: t}
		}
		var args []Term
		for _, f := range s.Fields {
			args = append(args, w.zeroOfSort(f.Sort, f.T))
		}
		r := app(s.ctor(), srt, args...)
		r.T = t
		return r
	}
	panic("zero: unknown sort " + srt)
}

// prelude emits sorts, datatypes, function declarations and axioms.
func (w *World) prelude() string {
	var b strings.Builder
	b.WriteString("(declare-sort Str 0)\n(declare-sort Flt 0)\n")
	b.WriteString("(declare-datatypes ((Slice 0)) (((mkSlice (arr Int) (off Int) (len Int) (cap Int)))))\n")
	b.WriteString("(declare-fun strlen (Str) Int)\n")
	for _, s := range w.structList {
		fmt.Fprintf(&b, "(declare-datatypes ((%s 0)) (((%s", s.Name, s.ctor())
		for i, f := range s.Fields {
			fmt.Fprintf(&b, " (%s %s)", s.selName(i), f.Sort)
		}
		b.WriteString("))))\n")
	}
	b.WriteString(`(define-fun godiv ((a Int) (b Int)) Int (ite (>= a 0) (ite (> b 0) (div a b) (- (div a (- b)))) (ite (> b 0) (- (div (- a) b)) (div (- a) (- b)))))
(define-fun gomod ((a Int) (b Int)) Int (ite (>= a 0) (mod a (ite (> b 0) b (- b))) (- (mod (- a) (ite (> b 0) b (- b))))))
(define-fun imin ((a Int) (b Int)) Int (ite (<= a b) a b))
(define-fun imax ((a Int) (b Int)) Int (ite (>= a b) a b))
`)
	for _, s := range w.strOrder {
		fmt.Fprintf(&b, "(declare-const %s Str)\n", w.strLits[s])
	}
	names := make([]string, 0, len(w.fltLits))
	for _, n := range w.fltLits {
		names = append(names, n)
	}
	sort.Strings(names)
	for _, n := range names {
		fmt.Fprintf(&b, "(declare-const %s Flt)\n", n)
	}
	for _, n := range w.funOrder {
		b.WriteString(w.funs[n])
		b.WriteString("\n")
	}
	for _, d := range w.defs {
		b.WriteString(d)
		b.WriteString("\n")
	}
	b.WriteString(";;AXIOMS\n(assert (forall ((s Str)) (>= (strlen s) 0)))\n")
	if len(w.strOrder) > 1 {
		b.WriteString("(assert (distinct")
		for _, s := range w.strOrder {
			b.WriteString(" " + w.strLits[s])
		}
		b.WriteString("))\n")
	}
	for _, s := range w.strOrder {
		fmt.Fprintf(&b, "(assert (= (strlen %s) %d))\n", w.strLits[s], len(s))
	}
	if _, ok := w.strLits[""]; ok {
		b.WriteString("(assert (forall ((s Str)) (=> (= (strlen s) 0) (= s strempty))))\n")
	}
	for _, a := range w.axioms {
		fmt.Fprintf(&b, "(assert (! %s :named %s))\n", a.F, sym("ax."+a.Name))
	}
	return b.String()
}
