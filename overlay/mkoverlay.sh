#!/bin/sh
# usage: mkoverlay.sh <outdir> [repo]   -- writes <outdir>/ov.json (+go.mod, go.sum) for `go ... -overlay`
# The overlay (a) replaces <repo>/go.mod by a copy with `go 1.18` + the fixed indirect block,
# (b) adds errors.CleanUp/CleanUpCtx, retry.MaxRetries and the limitbuf options to the module-cache
# copy of grailbio/base v0.0.9, (c) replaces exec/config.go (config-profile init only) by an empty file.
set -e
OUT=$1; REPO=${2:-/repo}
HERE=$(cd "$(dirname "$0")" && pwd)
mkdir -p "$OUT"
B=$(go env GOMODCACHE 2>/dev/null || echo /root/go/pkg/mod)/github.com/grailbio/base@v0.0.9
{ sed 's/^go 1\.12$/go 1.18/' "$REPO/go.mod"; echo; echo "require ("; cat "$HERE/indirect.block"; echo ")"; } > "$OUT/go.mod"
cat "$REPO/go.sum" "$HERE/go.sum.extra" 2>/dev/null | sort -u > "$OUT/go.sum"
cat > "$OUT/ov.json" <<EOT
{"Replace":{
"$REPO/go.mod":"$OUT/go.mod",
"$REPO/go.sum":"$OUT/go.sum",
"$REPO/exec/config.go":"$HERE/shims/exec_config.go",
"$B/errors/zz_shim.go":"$HERE/shims/errors_zz_shim.go",
"$B/retry/zz_shim.go":"$HERE/shims/retry_zz_shim.go",
"$B/limitbuf/limitbuf.go":"$HERE/shims/limitbuf.go"
}}
EOT
