package exec
