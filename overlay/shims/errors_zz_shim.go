package errors

import "context"

// CleanUp is a shim of grailbio/base/errors.CleanUp (absent in v0.0.9).
func CleanUp(cleanUp func() error, dst *error) {
	err := cleanUp()
	if err == nil {
		return
	}
	if *dst == nil {
		*dst = err
		return
	}
}

// CleanUpCtx is a shim of grailbio/base/errors.CleanUpCtx (absent in v0.0.9).
func CleanUpCtx(ctx context.Context, cleanUp func(context.Context) error, dst *error) {
	err := cleanUp(ctx)
	if err == nil {
		return
	}
	if *dst == nil {
		*dst = err
		return
	}
}
