package retry

// MaxRetries is a shim of grailbio/base/retry.MaxRetries (absent in v0.0.9).
func MaxRetries(policy Policy, n int) Policy {
	return MaxTries(policy, n+1)
}
